"""Kernel K9: the JSON tokenizer (utility/json.hpp: JSONParser::{isspace, consume_ws, parse_string,
parse_number, parse_bool, parse_null, parse_next, parse_array, parse_object}) and JSON::json_escape.
Property C18: from_json never reads outside its input, terminates, bounds its recursion depth and
raises only std::runtime_error / std::out_of_range; string escape / unescape are inverse byte by byte."""
import re

from common import (KernelBuild, Target, Rules, ExtractionBreak, base_rules, load_contracts, throw_rule, chai2c)

JS = "include/chaiscript/utility/json.hpp"
KINDMAP = {"runtime_error": "K_runtime_error"}

HEADER = r'''
#define VERIF_ALLOWED (KBIT(K_runtime_error) | KBIT(K_out_of_range))
/* ghost: inside a function declared noexcept an exception is std::terminate - a crash, not an error (cleared by every harness,
 * set only by a function whose signature says noexcept) */
_Bool verif_noexcept;
#define VERIF_THROW_OK(kind) (!verif_noexcept && ((((unsigned)(VERIF_ALLOWED)) >> (kind)) & 1u))
#include "verif_stl.h"
int verif_thrown;
vtail verif_last_string; /* ghost: the std::string handed to JSON(val) by parse_string */
_Bool verif_saw_dot, verif_saw_exp; /* ghosts of parse_number: a '.' / an exponent marker was consumed */
size_t verif_lemma_outlen; /* ghost: number of bytes json_escape's switch produced for the byte of the lemma */
#define STR_OK(s) ((s)->len <= 1000000000ul)
#define STR_REQ(s) (__CPROVER_is_fresh(s, sizeof(vjs)) && STR_OK(s) && __CPROVER_is_fresh((s)->data, (s)->len))
#define OFF_REQ(o) (__CPROVER_is_fresh(o, sizeof(size_t)))
'''

# OBJBITS note: with cbmc's --object-bits 12 (the runner's default) the dfcc write-set instrumentation of a
# loop whose assigns clause names a dereferenced pointer AND a local made propositional reduction explode
# (> 10 min); with the default 8 object bits the same targets take seconds.  256 objects are plenty here.
FNS = ["consume_ws", "parse_object", "parse_array", "parse_string", "parse_number", "parse_bool", "parse_null", "parse_next"]


def rules(nested=False):
    r = Rules("json")
    # sibling calls first (their `offset` argument is the pointer itself)
    r.add("R9.ws_preinc", r"\bconsume_ws\(str, \+\+offset\);", "++offset; consume_ws(str, offset);")
    if nested:
        # ghost argument: the nested value is parsed by parse_next at the caller's depth + 1
        r.add("R4.nested", r"\bparse_next\(str, offset, ([^;()]+)\)", r"JSONParser_parse_next_nested(str, VERIF_OFFP, \1, depth)", min_fire=1)
    r.add("R4.sib3", r"(?<![\w.>])(parse_array|parse_object|parse_next)\(str, offset, ", r"JSONParser_\1(str, VERIF_OFFP, ")
    r.add("R4.sib2", r"(?<![\w.>])(consume_ws|parse_string|parse_number|parse_bool|parse_null|parse_next)\(str, offset\)", r"JSONParser_\1(str, VERIF_OFFP)")
    r.add("R4.isspace", r"(?<![\w.>:])isspace\(", "JSONParser_isspace(")
    r.add("R6.cisspace", r"(?<![\w.>])::isspace\(", "verif_isspace(")
    # std::string input
    r.add("R9.at", r"\bstr\.at\(", "vjs_at(str, ")
    r.add("R9.idx", r"\bstr\[([^\[\]]+)\]", r"vjs_index(str, \1)")
    r.add("R9.size", r"\bstr\.size\(\)", "vjs_size(str)")
    r.add("R9.substr_eq", r"\bstr\.substr\(([^,()]+), (\d+)\) == (\"[a-z]+\")", r"vjs_substr_eq(str, \1, \2, \3)")
    r.add("R9.substr_ne", r"\bstr\.substr\(([^,()]+), (\d+)\) != (\"[a-z]+\")", r"!vjs_substr_eq(str, \1, \2, \3)")
    # strings being built
    r.add("R9.strdecl", r"\bstd::string val, exp_str;", "vtail val = {0}, exp_str = {0};")
    r.add("R9.strdecl1", r"\bstd::string val;", "vtail val = {0};")
    r.add("R9.append_u", r"\bval \+= \"\\\\u\";", r"vtail_push_back(&val, '\\\\'); vtail_push_back(&val, 'u');")
    r.add("R9.append", r"\b(val|exp_str) \+= ('(?:\\.|[^'\\])'|c);", r"vtail_push_back(&\1, \2);")
    r.add("R9.empty", r"!exp_str\.empty\(\)", "(exp_str.len != 0)")
    # JSON values are opaque
    r.add("R9.jsonctor", r"\bJSON (\w+)\(JSON::Class::(\w+)\);", r"vjson \1 = VJSON_\2;")
    r.add("R9.jsondecl", r"\bJSON (Key|Value) = ", r"vjson \1 = ")
    r.add("R9.objins", r"\bObject\[Key\.to_string\(\)\] = Value;", "(void)Key; (void)Value; /* R9: map insert of an opaque value */")
    r.add("R9.arrins", r"\bArray\[index\+\+\] = ", "index++, (void)")
    r.add("R9.ret_string", r"\breturn JSON\(val\);", "{ verif_last_string = val; return VJSON_String; }")
    # the class of the number is kept (Integral: parse_num<std::int64_t> without a conversion to double; Floating otherwise), its value is dropped
    r.add("R9.ret_float", r"\breturn JSON\(\(isNegative \? -1 : 1\) \* (?:static_cast<double>\(|chaiscript::parse_num<double>\()[^;]*\);", "return VJSON_Floating; /* R9: numeric value computation dropped */")
    r.add("R9.ret_int", r"\breturn JSON\(\(isNegative \? -1 : 1\) \* chaiscript::parse_num<std::int64_t>\(val\)\);", "return VJSON_Integral; /* R9: numeric value computation dropped */")
    # ghost: the lexical events "a decimal point was consumed" / "an exponent marker was consumed" (specification side of the class)
    r.add("R9.ghost_dot", r"\} else if \(c == '\.' && !isDouble\) \{", "} else if (c == '.' && !isDouble) { verif_saw_dot = 1;")
    r.add("R9.ghost_exp", r"\bif \(offset < vjs_size\(str\) && \(c == 'E' \|\| c == 'e'\)\) \{", "if (offset < vjs_size(str) && (c == 'E' || c == 'e')) { verif_saw_exp = 1;")
    r.add("R9.vsize", r"\bval\.size\(\)", "val.len")
    r.add("R6.digits10", r"\bstd::numeric_limits<std::int64_t>::digits10\b", "18")
    r.add("R9.ret_bool", r"\breturn JSON\((true|false)\);", "return VJSON_Boolean;")
    r.add("R9.ret_null", r"\breturn JSON\(\);", "return VJSON_Null;")
    r.add("R9.parse_num", r"\bchaiscript::parse_num<std::int64_t>\(exp_str\)", "verif_parse_num_i64(&exp_str)")
    r.extend(base_rules())
    # the reference parameter
    r.add("R2.offset", r"\boffset\b", "(*offset)")
    r.add("R2.offp", r"\bVERIF_OFFP\b", "offset")
    return r


def build(prop, tier="quick"):
    kb = KernelBuild("json", prop)
    contracts = load_contracts("K9_json.contracts")
    kb.add(HEADER)
    hdr = chai2c.Header(JS)
    thr = throw_rule(KINDMAP, JS)

    def C(name):
        return chai2c.contracts_for(contracts, name, prop)

    ps = hdr.slice_block("struct JSONParser")
    mm = re.search(r"static constexpr int max_nesting_depth = (\d+);", ps.body)
    if not mm:
        raise ExtractionBreak("JSONParser::max_nesting_depth not found")
    kb.add("#define max_nesting_depth %s /* extracted from %s */" % (mm.group(1), ps.where()))
    kb.native_data.append("max_nesting_depth = %s (read from the struct)" % mm.group(1))
    kb.add("static inline int64_t verif_parse_num_i64(const vtail *s) { int64_t verif_v; return verif_v; } /* opaque: any value */")
    protos = {
        "isspace": "bool JSONParser_isspace(const char c)",
        "consume_ws": "void JSONParser_consume_ws(const vjs *str, size_t *offset)",
        "parse_object": "vjson JSONParser_parse_object(const vjs *str, size_t *offset, int depth)",
        "parse_array": "vjson JSONParser_parse_array(const vjs *str, size_t *offset, int depth)",
        "parse_string": "vjson JSONParser_parse_string(const vjs *str, size_t *offset)",
        "parse_number": "vjson JSONParser_parse_number(const vjs *str, size_t *offset)",
        "parse_bool": "vjson JSONParser_parse_bool(const vjs *str, size_t *offset)",
        "parse_null": "vjson JSONParser_parse_null(const vjs *str, size_t *offset)",
        "parse_next": "vjson JSONParser_parse_next(const vjs *str, size_t *offset, int depth)",
    }
    kb.add("\n".join(p + ";" for p in protos.values()))
    anchors = {
        "isspace": "static bool isspace(const char c) noexcept",
        "consume_ws": "static void consume_ws(const std::string &str, size_t &offset)",
        "parse_object": "static JSON parse_object(const std::string &str, size_t &offset, int depth)",
        "parse_array": "static JSON parse_array(const std::string &str, size_t &offset, int depth)",
        "parse_string": "static JSON parse_string(const std::string &str, size_t &offset)",
        "parse_number": "static JSON parse_number(const std::string &str, size_t &offset)",
        "parse_bool": "static JSON parse_bool(const std::string &str, size_t &offset)",
        "parse_null": "static JSON parse_null(const std::string &str, size_t &offset)",
        "parse_next": "static JSON parse_next(const std::string &str, size_t &offset, int depth = 0)",
    }
    # the nested-call stub: parse_next's contract plus the ghost parent depth
    c = C("JSONParser_parse_next_nested")
    kb.emit_stub("vjson JSONParser_parse_next_nested(const vjs *str, size_t *offset, int depth, int parent_depth)", c.fn, "JSONParser_parse_next_nested")
    kb.functions.append("JSONParser_parse_next_nested (assumed: parse_next's own contract plus the ghost argument parent_depth)")

    def pre_for(cname):
        def pre(b):
            b2, n = thr(b, cname)
            return b2
        return pre

    for fn in ["isspace"] + FNS:
        sl = hdr.slice_function(anchors[fn], after=ps.ob)
        cname = "JSONParser_" + fn
        c = C(cname)
        pf = pre_for(cname)
        if re.search(r"\)\s*noexcept\s*$", sl.sig_tail) and fn != "isspace":
            kb.emit_function(protos[fn], sl, rules(nested=fn in ("parse_array", "parse_object")), list(c.fn) + [["F", "__CPROVER_assigns(verif_noexcept)"]], c.loops, cname,
                             pre=lambda b, pf=pf: "verif_noexcept = 1; /* declared so */" + pf(b), ghost=c.ghost)
        else:
            kb.emit_function(protos[fn], sl, rules(nested=fn in ("parse_array", "parse_object")), c.fn, c.loops, cname, pre=pf, ghost=c.ghost)

    leaf = ["JSONParser_consume_ws"]
    values = ["JSONParser_parse_string", "JSONParser_parse_number", "JSONParser_parse_bool", "JSONParser_parse_null"]

    def H(fn, decl, call, replace=(), loops=True, expect_loops=False):
        cname = "JSONParser_" + fn
        kb.add("void h_%s(void) { verif_noexcept = 0; %s %s; VERIF_CANARY(\"%s returns normally\"); }" % (cname, decl, call, cname))
        t = Target(cname, "h_" + cname, replace=list(replace), loops=loops, objbits=8)  # see OBJBITS note below
        if expect_loops:
            t.expect_loops = True
        kb.targets.append(t)
        return t

    H("isspace", "char c;", "JSONParser_isspace(c)")
    H("consume_ws", "const vjs *s; size_t *o;", "JSONParser_consume_ws(s, o)", expect_loops=True)
    H("parse_string", "const vjs *s; size_t *o;", "JSONParser_parse_string(s, o)", expect_loops=True)
    H("parse_number", "const vjs *s; size_t *o;", "JSONParser_parse_number(s, o)", expect_loops=True)
    H("parse_bool", "const vjs *s; size_t *o;", "JSONParser_parse_bool(s, o)")
    H("parse_null", "const vjs *s; size_t *o;", "JSONParser_parse_null(s, o)")
    H("parse_next", "const vjs *s; size_t *o; int d;", "JSONParser_parse_next(s, o, d)",
      replace=leaf + values + ["JSONParser_parse_array", "JSONParser_parse_object"])
    H("parse_array", "const vjs *s; size_t *o; int d;", "JSONParser_parse_array(s, o, d)", replace=leaf + ["JSONParser_parse_next_nested"], expect_loops=True)
    H("parse_object", "const vjs *s; size_t *o; int d;", "JSONParser_parse_object(s, o, d)", replace=leaf + ["JSONParser_parse_next_nested"], expect_loops=True)

    escape_kernel(kb, hdr, C, tier)
    kb.static_facts.append(load_fact(hdr))
    if tier == "thorough":
        rc, cases, err = _run_probe(["search"], timeout=3000)
        kb.static_facts.append(("native battery (thorough tier): probe_json.cpp - tolerance of 1.18 M inputs, documents, integers and string round trips on the real json.hpp under ASan",
                                rc == 0 and not cases, (err.strip() + " " + str(cases[:3]))[:400]))
    kb.assumptions += [
        "std::string input modelled as (bytes, length) with at() / substr() throwing std::out_of_range per [string.access], [string.substr] (verif_stl.h vjs); inputs of at most 10^9 bytes",
        "A5: ::isspace in the \"C\" locale; for negative char values the C standard leaves ::isspace undefined - glibc answers false",
        "JSON values are opaque (class only): building the JSON tree (QuickFlatMap / vector / string allocation) is not modelled",
        "JSONParser_parse_next_nested: assumed contract - it is parse_next's proved contract plus the ghost argument parent_depth (the extraction adds the caller's depth to each nested call)",
        "A3: max_nesting_depth + 1 nested parse_next/parse_array/parse_object frames fit the native stack",
        "numeric value computation in parse_number (parse_num, std::pow, the final multiplications) is dropped by rule R9.ret_number; signed overflow there is non-trapping",
    ]
    kb.unverified += ["tree-level round trip from_json(to_json(v)) == v (JSON variant, QuickFlatMap, json_wrap's type mapping)",
                      "number formatting and parsing (std::to_string, parse_num<double>, std::pow): the 1e-6 agreement",
                      "JSON::dump recursion depth for deeply nested script values (to_json side)",
                      "composition of the per-byte round-trip lemma into the whole-string statement is by induction on the string, argued in DESIGN.md, "
                      "and checked only boundedly (strings of at most 3 bytes) by the inlined pipeline target"]
    return kb


def load_fact(hdr):
    sl = hdr.slice_function("inline JSON JSON::Load(const std::string &str)")
    body = " ".join(sl.body.split())
    ok = body == "size_t offset = 0; return JSONParser::parse_next(str, offset);"
    return ("JSON::Load starts parse_next at offset 0 with the default depth 0", ok, "%s: %s" % (sl.where(), body))


# ---------------- json_escape and the per-byte round-trip lemma
ESC_HEADER = r'''
/* the std::string being produced by json_escape: a real buffer with a ghost capacity */
'''


def escape_rules():
    r = Rules("json-escape")
    r.add("R9.rangefor", r"for \(char i : str\) \{", "for (size_t verif_i = 0; verif_i < vjs_size(str); ++verif_i) { char i = str->data[verif_i];", min_fire=0)
    r.add("R9.outdecl", r"\bstd::string output;", "")
    def lit(m):
        # output += "literal";  -> one push_back per character of the literal (escape sequences stay C character literals)
        chars = re.findall(r"\\.|[^\\]", m.group(1))
        out = []
        for ch in chars:
            if ch == "'":
                ch = "\\'"
            elif ch == '\\"':
                ch = '"'
            out.append("vstr_push_back(output, '%s');" % ch)
        return " ".join(out)
    r.add("R9.out2", r'\boutput \+= "((?:[^"\\]|\\.)*)";', lit)
    r.add("R9.out1", r'\boutput \+= ([^;"]+);', r"vstr_push_back(output, \1);")
    r.add("R9.outret", r"\breturn output;", "return;")
    r.extend(base_rules())
    return r


def step_rules():
    """the body of parse_string's for loop: one decoding step"""
    r = rules()
    return r


def escape_kernel(kb, hdr, C, tier):
    sl = hdr.slice_function("static std::string json_escape(const std::string &str)")
    c = C("JSON_json_escape")
    kb.emit_function("void JSON_json_escape(const vjs *str, vstr *output)", sl, escape_rules(), c.fn, c.loops, "JSON_json_escape", ghost=c.ghost)
    for need in ("R9.rangefor", "R9.out2", "R9.out1", "R9.outret"):
        if kb.rules_fired.get(need, 0) < 1:
            raise ExtractionBreak("json_escape: rule %s did not fire" % need)
    kb.add('void h_JSON_json_escape(void) { const vjs *s; vstr *o; JSON_json_escape(s, o); VERIF_CANARY("json_escape returns normally"); }')
    t = Target("JSON_json_escape", "h_JSON_json_escape", objbits=8)
    t.expect_loops = True
    kb.targets.append(t)

    # --- sub-statement extraction: the switch of json_escape (one byte) and the body of
    # parse_string's loop (one decoding step).  What is dropped: the loop headers (covered by the
    # whole-function targets above).
    m = hdr.masked
    sw = re.search(r"\bswitch\s*\(i\)\s*\{", m[sl.ob:sl.cb])
    if not sw:
        raise ExtractionBreak("json_escape: switch (i) not found")
    ob = sl.ob + sw.end() - 1
    cb = chai2c.match_brace(m, ob)
    esc_step = chai2c.Slice(hdr, "json_escape: switch (i)", sl.ob + sw.start(), ob, cb)
    c = C("verif_escape_step")

    def wrap_switch(b):
        return " switch (i) {" + b + "} "
    kb.emit_function("void verif_escape_step(char i, vstr *output)", esc_step, escape_rules(), c.fn, c.loops, "verif_escape_step", wrap_body=wrap_switch, ghost=c.ghost)
    # (no stand-alone target: the step is inlined into lemma_roundtrip_byte; json_escape as a whole is a target above)

    ps = hdr.slice_function("static JSON parse_string(const std::string &str, size_t &offset)")
    fm = re.search(r"\bfor\s*\(char c = str\.at\(\+\+offset\); c != '\\\"'; c = str\.at\(\+\+offset\)\)\s*\{", hdr.text[ps.ob:ps.cb])
    if not fm:
        raise ExtractionBreak("parse_string: loop header changed")
    ob = ps.ob + fm.end() - 1
    cb = chai2c.match_brace(m, ob)
    dec_step = chai2c.Slice(hdr, "parse_string: loop body", ps.ob + fm.start(), ob, cb)
    c = C("verif_unescape_step")
    thr = throw_rule(KINDMAP, JS)

    def pre(b):
        b2, n = thr(b, "verif_unescape_step")
        # `val` is the caller's string here
        return b2

    def post(b):
        return b.replace("vtail_push_back(&val, ", "vtail_push_back(val, ")
    kb.emit_function("void verif_unescape_step(const vjs *str, size_t *offset, char c, vtail *val)", dec_step, step_rules(), c.fn, c.loops,
                     "verif_unescape_step", pre=pre, post=post, ghost=c.ghost)
    # (no stand-alone target: inlined into lemma_roundtrip_byte; parse_string as a whole is a target above)

    # --- the per-byte round-trip lemma: for every byte b and every string position, decoding what
    # escaping b produced yields exactly b and consumes exactly the produced bytes, and the first
    # produced byte is not the closing quote.  Both steps are replaced by their proved contracts.
    c = C("lemma_roundtrip_byte")
    body = r'''
  verif_escape_step(b, out);
  /* the decoder's input at *offset is the escaper's output */
  __CPROVER_assume(str->data[*offset] == out->data[0] && (out->len < 2 || str->data[*offset + 1] == out->data[1]));
  char c = vjs_at(str, *offset);          /* loop header: c = str.at(++offset), offset already advanced */
  __CPROVER_assert(c != '"', "[P] the first escaped byte never closes the string literal");
  verif_unescape_step(str, offset, c, val);
  ++(*offset);                             /* loop header: the ++offset of the next c = str.at(++offset) */
  verif_lemma_outlen = out->len;
'''
    kb.emit_stub("void lemma_roundtrip_byte(const vjs *str, size_t *offset, char b, vtail *val, vstr *out)", c.fn, "lemma_roundtrip_byte", body=body)
    kb.functions.append("lemma_roundtrip_byte")
    kb.add('void h_lemma_roundtrip_byte(void) { const vjs *s; size_t *o; char b; vtail *v; vstr *u; lemma_roundtrip_byte(s, o, b, v, u); VERIF_CANARY("lemma returns normally"); }')
    # both steps are inlined (not replaced by their helper contracts), so a harmless change of a step cannot void this proof
    t = Target("lemma_roundtrip_byte", "h_lemma_roundtrip_byte", objbits=8)
    t.expect_loops = True
    kb.targets.append(t)

    # --- bounded stand-in for the composed statement: json_escape -> '"' ... '"' -> parse_string on
    # strings of at most 3 bytes, bodies inlined (no contracts), unwinding assertions on.
    kb.add(r'''
void h_roundtrip_pipeline(void) {
  size_t n; __CPROVER_assume(n <= 3);
  char in[3]; char buf[27]; vjs s; s.data = in; s.len = n;
  vstr out; out.data = buf + 1; out.cap = 24; out.len = 0;
  JSON_json_escape(&s, &out);
  buf[0] = '"'; buf[out.len + 1] = '"';
  vjs t; t.data = buf; t.len = out.len + 2;
  size_t off = 0;
  JSONParser_parse_string(&t, &off);
  __CPROVER_assert(off == t.len, "[P] parse_string consumes exactly the escaped literal");
  __CPROVER_assert(verif_last_string.len == n, "[P] round trip keeps the length");
  __CPROVER_assert(n < 1 || verif_last_string.t[8 - n] == (unsigned char)in[0], "[P] round trip keeps byte 0");
  __CPROVER_assert(n < 2 || verif_last_string.t[9 - n] == (unsigned char)in[1], "[P] round trip keeps byte 1");
  __CPROVER_assert(n < 3 || verif_last_string.t[7] == (unsigned char)in[2], "[P] round trip keeps byte 2");
}
''')
    t = Target("roundtrip_pipeline", "h_roundtrip_pipeline", enforce=False, loops=False, unwind=27, canary=False,
               bounded_note="strings of at most 3 bytes (up to 8 escaped bytes each), loops unwound 27 times with unwinding assertions")
    kb.targets.append(t)


# ---- native replay: the real JSON::Load / JSON::dump under ASan
def build_probe():
    import native
    import os
    from common import VERIF
    return native.build("probe_json", os.path.join(VERIF, "native", "probe_json.cpp"), flags=["-fsanitize=address", "-O1"])


def _run_probe(args, timeout=900):
    import json
    import subprocess
    r = subprocess.run([build_probe()] + args, stdout=subprocess.PIPE, stderr=subprocess.PIPE, timeout=timeout)
    cases = []
    for line in r.stdout.decode("utf-8", "replace").splitlines():
        try:
            cases.append(json.loads(line))
        except ValueError:
            pass
    return r.returncode, cases, r.stderr.decode("utf-8", "replace")[-300:]


_cache = {}


def replay_fn(kb, t, pr, vals, order, rec):
    if "search" not in _cache:
        _cache["search"] = _run_probe(["search"])
    rc, cases, err = _cache["search"]
    return {"reproduced": bool(cases), "probe": "native/probe_json.cpp (real JSON::Load / dump under ASan: all strings of length <= 5 over 16 JSON structure bytes, "
            "deep nesting, truncated escapes; string round trip for all byte strings of length <= 2)",
            "failing_cases": cases[:6], "probe_summary": err.strip()}


def replay_file(rec):
    cases = (rec.get("native_replay") or {}).get("failing_cases") or []
    if not cases:
        print("replay: no failing input recorded; failed obligation: %s :: %s" % (rec.get("obligation"), rec.get("description")))
        return 2
    rc = 0
    for c in cases:
        if "string_hex" in c:
            r, cs, err = _run_probe(["rt", c["string_hex"]], timeout=120)
        elif "input_hex" in c and not c["input_hex"].endswith("..."):
            r, cs, err = _run_probe(["case", c["input_hex"]], timeout=120)
        else:
            r, cs, err = _run_probe(["search"])
        if r != 0:
            rc = 1
            print("REPRODUCED on real code: %s" % (cs or c))
        else:
            print("not reproduced: %r" % c)
    return rc
