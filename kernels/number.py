"""Kernel K4: Boxed_Number::go<LHS,RHS> (all 121 instantiations), the unary lambda of
Boxed_Number::oper, check_divide_by_zero<T>, get_common_type(size,signed) from
include/chaiscript/dispatchkit/boxed_number.hpp, Opers from chaiscript_algebraic.hpp.
Properties C05 (values/types/traps) and C07 (frame: only *t_lhs is written, never through a
null lhs)."""
import os
import re

from common import (KernelBuild, Target, Rules, ExtractionBreak, base_rules, load_contracts, throw_rule,
                    chai2c, VERIF)

HDR = "include/chaiscript/dispatchkit/boxed_number.hpp"
ALG = "include/chaiscript/language/chaiscript_algebraic.hpp"

# (short, C type, is_float)
TYPES = [("i8", "int8_t", 0), ("u8", "uint8_t", 0), ("i16", "int16_t", 0), ("u16", "uint16_t", 0),
         ("i32", "int32_t", 0), ("u32", "uint32_t", 0), ("i64", "int64_t", 0), ("u64", "uint64_t", 0),
         ("f32", "float", 1), ("f64", "double", 1), ("f80", "long double", 1)]

C07_QUICK_EXTRA = {("i32", "f64"), ("i32", "u8"), ("i32", "i64"), ("f64", "i32"), ("u8", "i32"), ("i64", "u64")}
KINDMAP = {"arithmetic_error": "K_arithmetic_error", "bad_any_cast": "K_bad_any_cast"}

HEADER = r'''
/* the throw-site obligation of this kernel is an exceptional postcondition: the kind thrown
 * must be the one the specification (ghost, computed at entry of go/unary) prescribes */
#define VERIF_THROW_OK(kind) ((kind) == K_arithmetic_error ? verif_spec_trap : (kind) == K_bad_any_cast ? verif_spec_undefined : 0)
#include "verif_prelude.h"
int verif_thrown;
/* ghost: what the specification says about this call */
_Bool verif_spec_trap;      /* integer division/remainder whose divisor is 0 or that overflows (MIN / -1) */
_Bool verif_spec_undefined; /* opcode not defined for these operand kinds / null lhs on an assignment opcode */

enum vtag { T_bool = 1, T_i8, T_u8, T_i16, T_u16, T_i32, T_u32, T_i64, T_u64, T_f32, T_f64, T_f80, T_lhsref, T_other };
typedef struct VNum { int tag; int64_t i; uint64_t u; long double f; } VNum;
/* the C type of an expression, as const_var(expr) would box it (A1: C and C++ agree on
 * promotions and usual arithmetic conversions for these operand types) */
#define VTAG(e) _Generic((e), signed char: T_i8, unsigned char: T_u8, short: T_i16, unsigned short: T_u16, int: T_i32, \
    unsigned int: T_u32, long: T_i64, unsigned long: T_u64, long long: T_i64, unsigned long long: T_u64, float: T_f32, double: T_f64, \
    long double: T_f80, default: T_other)
static inline void vset_i(VNum *o, int64_t v) { o->i = v; }
static inline void vset_u(VNum *o, uint64_t v) { o->u = v; }
static inline void vset_f(VNum *o, long double v) { o->f = v; }
#define VERIF_RESULT(out, e) do { (out)->tag = VTAG(e); \
    _Generic((e), float: vset_f, double: vset_f, long double: vset_f, unsigned long: vset_u, unsigned long long: vset_u, default: vset_i)((out), (e)); } while (0)
#define VERIF_RESULT_BOOL(out, e) do { (out)->tag = T_bool; (out)->i = ((e) ? 1 : 0); } while (0)
/* "the same floating value": equal AND of the same sign (+0.0 and -0.0 compare equal but are different
 * values: 1/x tells them apart), or both NaN */
#ifdef VERIF_CBMC
#define VERIF_SIGN(x) __CPROVER_signld((long double)(x))
#else
#define VERIF_SIGN(x) (__builtin_signbit((long double)(x)) != 0)
#endif
#define FEQ(a, b) (((a) == (b) && VERIF_SIGN(a) == VERIF_SIGN(b)) || ((a) != (a) && (b) != (b)))
#define RES_EQ(out, e) ((out)->tag == VTAG(e) && _Generic((e), float: FEQ((out)->f, (long double)(e)), double: FEQ((out)->f, (long double)(e)), \
    long double: FEQ((out)->f, (long double)(e)), unsigned long: (out)->u == (uint64_t)(e), unsigned long long: (out)->u == (uint64_t)(e), \
    default: (out)->i == (int64_t)(e)))
#define RES_BOOL(out, e) ((out)->tag == T_bool && (out)->i == ((e) ? 1 : 0))
/* common (promoted) type of l (op) r is signed integer, and its minimum */
#define SIGNED_INT(e) _Generic((e), int: 1, long: 1, long long: 1, default: 0)
#define MIN_OF(e) _Generic((e), int: (long long)INT_MIN, long: (long long)LONG_MIN, long long: LLONG_MIN, default: 0ll)
#define AS_COMMON(x, l, r) (0 ? ((l) + (r)) : (x))
/* integer division l / r (or l % r) traps: zero divisor, or most negative value of the signed common type by -1 */
#define DIVTRAP(l, r) ((r) == 0 || (SIGNED_INT((l) + (r)) && AS_COMMON(r, l, r) == -1 && AS_COMMON(l, l, r) == MIN_OF((l) + (r))))
#define NZ(x) ((x) == 0 ? 1 : (x))
/* Abstraction (stated in DESIGN 7/C05): the operators * / % (and + - on floating operands) are
 * applied through VOP(op,a,b).  Under cbmc VOP is an UNINTERPRETED function of the same C
 * type as the expression (an over-approximation of the machine operator: SAT cannot prove two
 * multiplier/divider circuits equal, probed), preceded for integer / and % by the explicit
 * safety obligation "this division does not trap".  Natively VOP is the operator itself. */
#ifdef VERIF_CBMC
#define VOP_DECL(op, ls, rs, LT, RT, sym) __typeof__((LT)1 sym (RT)1) __CPROVER_uninterpreted_##op##_##ls##_##rs(LT a, RT b);
#define VOPS_(op, ls, rs, a, b) __CPROVER_uninterpreted_##op##_##ls##_##rs((a), (b))
#define VOPD_(op, ls, rs, bothint, a, b) (__CPROVER_assert(!((bothint) && DIVTRAP((a), (b))), "[S] integer division executed with a zero divisor or MIN / -1 (would trap)"), VOPS_(op, ls, rs, a, b))
#else
#define VOP_DECL(op, ls, rs, LT, RT, sym) static inline __typeof__((LT)1 sym (RT)1) verif_##op##_##ls##_##rs(LT a, RT b) { return a sym b; }
#define VOPS_(op, ls, rs, a, b) verif_##op##_##ls##_##rs((a), (b))
#define VOPD_(op, ls, rs, bothint, a, b) VOPS_(op, ls, rs, a, b)
#endif
/* ghost: value of the left operand object at entry of go (c_lhs is that object in the real code) */
int8_t verif_l0_i8; uint8_t verif_l0_u8; int16_t verif_l0_i16; uint16_t verif_l0_u16; int32_t verif_l0_i32; uint32_t verif_l0_u32;
int64_t verif_l0_i64; uint64_t verif_l0_u64; float verif_l0_f32; double verif_l0_f64; long double verif_l0_f80;
#define SPLAIN_ADD(a, b) ((a) + (b))
#define SPLAIN_SUB(a, b) ((a) - (b))
#define IS_CMP(o) ((o) == Opers_equals || (o) == Opers_less_than || (o) == Opers_greater_than || (o) == Opers_less_than_equal || (o) == Opers_greater_than_equal || (o) == Opers_not_equal)
#define IS_ARITH(o) ((o) == Opers_sum || (o) == Opers_quotient || (o) == Opers_product || (o) == Opers_difference)
#define IS_INTOP(o) ((o) == Opers_shift_left || (o) == Opers_shift_right || (o) == Opers_remainder || (o) == Opers_bitwise_and || (o) == Opers_bitwise_or || (o) == Opers_bitwise_xor)
#define IS_ASSIGN_ANY(o) ((o) == Opers_assign || (o) == Opers_assign_product || (o) == Opers_assign_sum || (o) == Opers_assign_quotient || (o) == Opers_assign_difference)
#define IS_ASSIGN_INT(o) ((o) == Opers_assign_bitwise_and || (o) == Opers_assign_bitwise_or || (o) == Opers_assign_shift_left || (o) == Opers_assign_shift_right || (o) == Opers_assign_remainder || (o) == Opers_assign_bitwise_xor)
#define IS_DIV(o, bothint) ((o) == Opers_quotient || (o) == Opers_assign_quotient || ((bothint) && ((o) == Opers_remainder || (o) == Opers_assign_remainder)))
#define DEFINED(o, lhs, bothint) (IS_CMP(o) || IS_ARITH(o) || ((bothint) && IS_INTOP(o)) || ((lhs) != NULL && (IS_ASSIGN_ANY(o) || ((bothint) && IS_ASSIGN_INT(o)))))
'''


def opers_enum(kb):
    hdr = chai2c.Header(ALG)
    sl = hdr.slice_block("enum class Opers")
    names = re.findall(r"^\s*(\w+),?\s*$", sl.body, re.M)
    if len(names) != 33 or names[0] != "equals" or names[-1] != "invalid":
        raise ExtractionBreak("enum Opers changed: %r" % names)
    kb.slices.append(("enum Opers", sl.where(), sl.sha))
    return "enum Opers { " + ", ".join("Opers_" + n for n in names) + " };\n", names


def eval_if_constexpr(body, cond_value, ctx):
    """R9: `if constexpr (COND) { ... }` with COND one of the literal floating-point tests:
    keep the block (as a plain block) or delete it.  cond_value(cond_text)->bool."""
    m = chai2c._mask(body)
    out = []
    last = 0
    n = 0
    for mm in re.finditer(r"\bif constexpr\s*\(", m):
        if mm.start() < last:
            continue
        op = mm.end() - 1
        cp = chai2c.match_brace(m, op, "(", ")")
        cond = " ".join(body[op + 1:cp].split())
        ob = m.find("{", cp)
        if m[cp + 1:ob].strip():
            raise ExtractionBreak("if constexpr without block in " + ctx)
        cb = chai2c.match_brace(m, ob)
        if re.match(r"\s*else\b", m[cb + 1:]):
            raise ExtractionBreak("if constexpr with else not in rule set (%s)" % ctx)
        val = cond_value(cond)
        out.append(body[last:mm.start()])
        if val:
            out.append("{" + eval_if_constexpr(body[ob + 1:cb], cond_value, ctx)[0] + "}")
        last = cb + 1
        n += 1
    out.append(body[last:])
    return "".join(out), n


def go_rules(bothint=1):
    r = base_rules()
    # R9.vop: hard operators through VOP (see header comment)
    r.add("R9.vop_mul", r"\bc_lhs \* c_rhs\b", "VOP(mul, c_lhs, c_rhs)", min_fire=1)
    r.add("R9.vop_div", r"\bc_lhs / c_rhs\b", "VOPD(div, c_lhs, c_rhs)", min_fire=1)
    r.add("R9.vop_rem", r"\bc_lhs % c_rhs\b", "VOPD(rem, c_lhs, c_rhs)", min_fire=1 if bothint else 0)
    # casts to the template parameters (a right operand converted before the operation, for instance)
    r.add("R6.cast_LHS", r"\((?:LHS)\)\(", "(LT_)(")
    r.add("R6.cast_RHS", r"\((?:RHS)\)\(", "(RT_)(")
    r.add("R9.vop_muleq", r"\*t_lhs \*= ([^;]+);", r"*t_lhs = (LT_)VOP(mul, *t_lhs, \1);", min_fire=1)
    r.add("R9.vop_diveq", r"\*t_lhs /= ([^;]+);", r"*t_lhs = (LT_)VOPD(div, *t_lhs, \1);", min_fire=1)
    r.add("R9.vop_remeq", r"\*t_lhs %= ([^;]+);", r"*t_lhs = (LT_)VOPD(rem, *t_lhs, \1);", min_fire=1 if bothint else 0)
    if not bothint:
        r.add("R9.vop_add", r"\bc_lhs \+ c_rhs\b", "VOP(add, c_lhs, c_rhs)", min_fire=1)
        r.add("R9.vop_sub", r"\bc_lhs - c_rhs\b", "VOP(sub, c_lhs, c_rhs)", min_fire=1)
        r.add("R9.vop_addeq", r"\*t_lhs \+= ([^;]+);", r"*t_lhs = (LT_)VOP(add, *t_lhs, \1);", min_fire=1)
        r.add("R9.vop_subeq", r"\*t_lhs -= ([^;]+);", r"*t_lhs = (LT_)VOP(sub, *t_lhs, \1);", min_fire=1)
    r.add("R9.const_var_cmp", r"\breturn const_var\((c_lhs (?:==|<|>|<=|>=|!=) c_rhs)\);", r"{ VERIF_RESULT_BOOL(out, \1); return; }", min_fire=6)
    r.add("R9.const_var", r"\breturn const_var\(([^;]+)\);", r"{ VERIF_RESULT(out, (\1)); return; }", min_fire=4)
    r.add("R9.return_lhs", r"\breturn t_bv;", "{ out->tag = T_lhsref; return; }", min_fire=5)
    r.add("R7.opers", r"\bOperators::Opers::(\w+)", r"Opers_\1", min_fire=10)
    r.add("R4.cdbz", r"\bcheck_divide_by_zero\(c_lhs, c_rhs\)", "check_divide_by_zero_LS_RS(c_lhs, c_rhs)", min_fire=4 if bothint else 2)
    # R2: `const T &` parameters of scalar type are passed by value (sound only because no
    # case reads c_lhs/c_rhs after writing *t_lhs - enforced by assignment_case_shape())
    return r


def unary_rules(isf=0):
    r = base_rules()
    if isf:
        # floating ++/-- through an uninterpreted function (see VOP comment in the header)
        r.add("R9.vopu_inc", r"\+\+\(\*lhs\);", "*lhs = VOPU(inc, *lhs);", min_fire=1)
        r.add("R9.vopu_dec", r"--\(\*lhs\);", "*lhs = VOPU(dec, *lhs);", min_fire=1)
    r.add("R9.lhs_ptr", r"auto \*lhs = static_cast<std::decay_t<decltype\(c_lhs\)> \*>\(t_lhs\.get_ptr\(\)\);", "LT *lhs = t_lhs_ptr;", min_fire=1)
    r.add("R9.const_var", r"\breturn const_var\(([^;]+)\);", r"{ VERIF_RESULT(out, (\1)); return; }", min_fire=2)
    r.add("R9.return_lhs", r"\breturn t_lhs;", "{ out->tag = T_lhsref; return; }", min_fire=2)
    r.add("R7.opers", r"\bOperators::Opers::(\w+)", r"Opers_\1", min_fire=4)
    return r


def common_signed(ls, rs, lf, rf):
    """signedness of the type of l / r under the usual arithmetic conversions, LP64
    (validated by a _Static_assert in the generated C)."""
    if lf or rf:
        return False

    def prom(s):
        return "i32" if s in ("i8", "u8", "i16", "u16") else s
    a, b = prom(ls), prom(rs)
    rank = {"i32": 1, "u32": 1, "i64": 2, "u64": 2}
    if a == b:
        c = a
    elif a[0] == b[0]:
        c = a if rank[a] >= rank[b] else b
    else:
        u, g = (a, b) if a[0] == "u" else (b, a)
        c = u if rank[u] >= rank[g] else g
    return c[0] == "i"


def fp_cond(lf, rf, sg=None):
    def f(cond):
        c = cond.replace(" ", "")
        table = {
            "!std::is_floating_point<LHS>::value&&!std::is_floating_point<RHS>::value": (not lf) and (not rf),
            "std::is_signed<Result>::value": sg,
            "!std::is_floating_point_v<std::decay_t<decltype(c_lhs)>>": not lf,
        }
        if c not in table:
            raise ExtractionBreak("if constexpr condition not in rule set: " + cond)
        return table[c]
    return f



def emit_cdbz(kb, hdr, thr, ls, lt, lf, rs, rt, rf):
    cd = hdr.slice_function("constexpr static inline void check_divide_by_zero([[maybe_unused]] const LHS &t_lhs, [[maybe_unused]] const RHS &t_rhs)")
    name = "check_divide_by_zero_%s_%s" % (ls, rs)
    sg = common_signed(ls, rs, lf, rf)

    def pre(body):
        b, n = thr(body, name)
        if n != 2:
            raise ExtractionBreak("check_divide_by_zero: expected two throws, found %d" % n)
        b, k = eval_if_constexpr(b, fp_cond(lf, rf, sg), name)
        if k != 1:
            raise ExtractionBreak("check_divide_by_zero: expected one outer if constexpr")
        return b

    r = base_rules()
    # the type alias in which the overflow test is made: decltype of the division (the promoted type), or
    # std::common_type_t (same type -> that type, otherwise the usual arithmetic conversions, as in C)
    r.add("R9.using_decltype", r"\busing Result = decltype\(t_lhs / t_rhs\);", "typedef __typeof__(t_lhs / t_rhs) Result;")
    ct = lt if lt == rt else "__typeof__((%s)0 + (%s)0)" % (lt, rt)
    r.add("R9.using_common", r"\busing Result = std::common_type_t<\s*LHS\s*,\s*RHS\s*>;", "typedef %s Result; /* std::common_type_t<LHS, RHS> */" % ct)
    r.add("R6.limits_min", r"\bstd::numeric_limits<Result>::min\(\)", "((Result)MIN_OF((Result)0))")
    before = dict(kb.rules_fired)
    kb.emit_function("static inline void %s(const %s t_lhs, const %s t_rhs)" % (name, lt, rt), cd, r, [], {}, name, pre=pre)
    fired = sum(kb.rules_fired.get(k, 0) - before.get(k, 0) for k in ("R9.using_decltype", "R9.using_common"))
    if not (lf or rf) and fired != 1:
        raise ExtractionBreak("check_divide_by_zero: the alias `using Result = ...` is not in the rule set")
    if not (lf or rf):
        kb.add("_Static_assert(SIGNED_INT((%s)0 / (%s)1) == %d, \"common type signedness table\");" % (lt, rt, 1 if sg else 0))


def subst_ops(text, bothint):
    """spec-side spelling of + and - : the plain operator for integer pairs, VOP for floating ones"""
    if bothint:
        return text.replace("SADD(", "SPLAIN_ADD(").replace("SSUB(", "SPLAIN_SUB(")
    return text.replace("SADD(", "VOP(add, ").replace("SSUB(", "VOP(sub, ")


def subst(text, **kw):
    for k, v in kw.items():
        text = text.replace("{" + k + "}", str(v))
    return text


def build(prop, tier="quick"):
    """one small translation unit per instantiation (goto-instrument --dfcc instruments the
    whole binary, so 121 functions in one unit cost minutes per target)"""
    kb = KernelBuild("number_misc", prop)
    units = [kb]
    hdr = chai2c.Header(HDR)
    contracts = load_contracts("K4_number.contracts")
    thr = throw_rule(KINDMAP, HDR)
    enum_txt, opnames = opers_enum(kb)
    kb.add(HEADER)
    kb.add(enum_txt)
    misc = kb

    # --- get_common_type(size, signed)
    kb.add("enum Common_Types { " + ", ".join("Common_Types_" + n for n in common_types(hdr, kb)) + " };")
    sl = hdr.slice_function("constexpr static Common_Types get_common_type(size_t t_size, bool t_signed) noexcept")
    r = base_rules()
    r.add("R7.ct", r"\bCommon_Types::(\w+)", r"Common_Types_\1", min_fire=8)
    c = chai2c.contracts_for(contracts, "get_common_type", prop)
    kb.emit_function("int get_common_type(size_t t_size, bool t_signed)", sl, r, c.fn, c.loops, "get_common_type")
    kb.add('void h_get_common_type(void) { size_t s; bool g = verif_nondet_bool(); get_common_type(s, g); VERIF_CANARY("returns"); }')
    kb.targets.append(Target("get_common_type", "h_get_common_type"))

    # --- go<LHS,RHS>
    gs = hdr.slice_function("static auto go(Operators::Opers t_oper, const Boxed_Value &t_bv, LHS *t_lhs, const LHS &c_lhs, const RHS &c_rhs)")
    cgo = chai2c.contracts_for(contracts, "go", prop)
    excluded = [r"arithmetic overflow on signed (\+|-|\*|shl|unary minus)", r"arithmetic overflow on unsigned", r"undefined-shift",
                r"arithmetic overflow on signed type conversion", r"arithmetic overflow on float", r"NaN on", r"arithmetic overflow on unsigned to signed",
                r"arithmetic overflow on signed to unsigned", r"arithmetic overflow on floating-point"]
    for ls, lt, lf in TYPES:
        for rs, rt, rf in TYPES:
            name = "go_%s_%s" % (ls, rs)
            bothint = 0 if (lf or rf) else 1
            if prop == "C07" and tier == "quick" and not (ls == rs or (ls, rs) in C07_QUICK_EXTRA):
                continue  # the same contracts (frame clauses included) are enforced for all 121 pairs by C05 and by C07's thorough tier
            kb = KernelBuild("number_go_%s_%s" % (ls, rs), prop)
            units.append(kb)
            kb.add(HEADER)
            kb.add(enum_txt)
            emit_cdbz(kb, hdr, thr, ls, lt, lf, rs, rt, rf)

            def pre(body, lf=lf, rf=rf, name=name):
                b, n = thr(body, name)
                if n != 1:
                    raise ExtractionBreak("go: expected exactly one throw (bad_any_cast), found %d" % n)
                b, k = eval_if_constexpr(b, fp_cond(lf, rf), name)
                if k != 2:
                    raise ExtractionBreak("go: expected two if-constexpr blocks, found %d" % k)
                return b

            def post(body, ls=ls, rs=rs, lt=lt):
                return body.replace("check_divide_by_zero_LS_RS(", "check_divide_by_zero_%s_%s(" % (ls, rs)).replace("(LT_)", "(%s)" % lt).replace("(RT_)", "(%s)" % rt)

            ops = [("mul", "*"), ("div", "/")] + ([("rem", "%")] if bothint else [("add", "+"), ("sub", "-")])
            kb.add("\n".join("VOP_DECL(%s, %s, %s, %s, %s, %s)" % (o, ls, rs, lt, rt, sym) for o, sym in ops))
            kb.add("#define VOP(op, a, b) VOPS_(op, %s, %s, a, b)\n#define VOPD(op, a, b) VOPD_(op, %s, %s, %d, a, b)"
                   % (ls, rs, ls, rs, bothint))

            kw = dict(LT=lt, RT=rt, LS=ls, BOTHINT=bothint, RINT=0 if rf else 1, LINT=0 if lf else 1)
            kw["ADD"] = "%s + %s" if bothint else "VOP(add, %s, %s)"
            kw["SUB"] = "%s - %s" if bothint else "VOP(sub, %s, %s)"
            fnc = [(cl, subst_ops(subst(t, **kw), bothint)) for cl, t in cgo.fn if not (("@int " in t) and not bothint)]
            fnc = [(cl, t.replace("@int ", "")) for cl, t in fnc]
            ghost = [subst(g, **kw) for g in cgo.ghost]
            kb.emit_function("void %s(int t_oper, %s *t_lhs, const %s c_lhs, const %s c_rhs, VNum *out)" % (name, lt, lt, rt),
                             gs, go_rules(bothint), fnc, {}, name, pre=pre, post=post, ghost=ghost)
            kb.add("#undef VOP\n#undef VOPD")
            kb.add("void h_%s(void) { int op; %s *t_lhs; %s c_lhs; %s c_rhs; VNum *out; %s(op, t_lhs, c_lhs, c_rhs, out); "
                   "VERIF_CANARY(\"%s returns normally\"); }" % (name, lt, lt, rt, name, name))
            t = Target(name, "h_" + name, excluded=excluded, group="go")
            kb.targets.append(t)

    # --- unary lambda of oper
    us = hdr.slice_function("auto unary_operator = [t_oper, &t_lhs](const auto &c_lhs)")
    cun = chai2c.contracts_for(contracts, "unary", prop)
    for s, ct, isf in TYPES:
        name = "unary_" + s
        kb = KernelBuild("number_unary_" + s, prop)
        units.append(kb)
        kb.add(HEADER)
        kb.add(enum_txt)

        def pre(body, isf=isf, name=name):
            b, n = thr(body, name)
            if n != 1:
                raise ExtractionBreak("unary: expected one throw")
            b, k = eval_if_constexpr(b, fp_cond(isf, isf), name)
            if k != 1:
                raise ExtractionBreak("unary: expected one if constexpr")
            return b

        def post(body, ct=ct):
            return body.replace("LT *lhs", ct + " *lhs")

        kw = dict(LT=ct, LINT=0 if isf else 1, LS=s)
        kw["INC"] = "VOPU(inc, verif_l0_%s)" % s if isf else "(%s)(verif_l0_%s + 1)" % (ct, s)
        kw["DEC"] = "VOPU(dec, verif_l0_%s)" % s if isf else "(%s)(verif_l0_%s - 1)" % (ct, s)
        if isf:
            kb.add("#ifdef VERIF_CBMC\n%s __CPROVER_uninterpreted_inc_%s(%s a); %s __CPROVER_uninterpreted_dec_%s(%s a);\n"
                   "#define VOPU(op, a) __CPROVER_uninterpreted_##op##_%s(a)\n#else\n#define VOPU(op, a) verif_u##op((a))\n"
                   "#define verif_uinc(a) ((a) + 1)\n#define verif_udec(a) ((a) - 1)\n#endif" % (ct, s, ct, ct, s, ct, s))
        fnc = [(cl, subst(t, **kw)) for cl, t in cun.fn if not (("@int " in t) and isf)]
        fnc = [(cl, t.replace("@int ", "")) for cl, t in fnc]
        ghost = [subst(g, **kw) for g in cun.ghost]
        kb.emit_function("void %s(int t_oper, %s *t_lhs_ptr, const %s c_lhs, VNum *out)" % (name, ct, ct), us, unary_rules(isf), fnc, {},
                         name, pre=pre, post=post, ghost=ghost)
        kb.add("void h_%s(void) { int op; %s *p; %s c; VNum *out; %s(op, p, c, out); VERIF_CANARY(\"%s returns normally\"); }"
               % (name, ct, ct, name, name))
        kb.targets.append(Target(name, "h_" + name, excluded=excluded, group="unary"))

    kb = misc
    emit_to_operator(kb, contracts, prop, opnames)
    route_facts(kb, hdr)
    visit_fact(kb, hdr)
    rethrow_fact(kb)
    fold_route_fact(kb)
    types_fact(kb)
    # --- static fact: the lhs pointer handed to go()
    line = "auto *lhs = t_lhs.is_return_value() ? nullptr : static_cast<std::decay_t<decltype(c_lhs)> *>(t_lhs.get_ptr());"
    ok = " ".join(line.split()) in " ".join(hdr.text.split())
    kb.static_facts.append(("oper_binary_lhs_is_null_for_return_values_else_get_ptr", ok,
                            "boxed_number.hpp binary oper: `%s`" % line))
    kb.assumptions += [
        "A1: C and C++ agree on integer promotion, usual arithmetic conversions and the value of every operator used, for "
        "int8..int64/uint8..uint64/float/double/long double on x86-64 LP64 (machine integers are bit-vectors, not mathematical)",
        "excluded by the property statement: obligations of the classes signed +,-,*,<< overflow, over-wide shift, float->int out of range, "
        "float overflow/NaN (undefined or non-trapping); counted under excluded_obligations",
        "c_lhs and *t_lhs are the same object when t_lhs is non-null (that is how oper() calls go); c_rhs may alias it when LHS == RHS",
    ]
    kb.unverified += ["Boxed_Number::visit / get_common_type(Boxed_Value) type-switch (checked natively, exhaustively over the 23 builtin types, "
                      "by native/probe_number.cpp - not a proof)",
                      "AST nodes' exception translation (arithmetic_error -> eval_error in Equation), Constant_Fold's swallow-and-retry"]
    return units


def common_types(hdr, kb):
    sl = hdr.slice_block("enum class Common_Types")
    names = re.findall(r"^\s*(t_\w+),?\s*$", sl.body, re.M)
    if len(names) != 11:
        raise ExtractionBreak("Common_Types changed")
    kb.slices.append(("enum Common_Types", sl.where(), sl.sha))
    return names


# ---------------------------------------------------------------- to_operator / hash
# operator spellings of the language (written from the language definition, independent of
# the code's switch): spelling -> (binary opcode, unary opcode or None)
SPELLINGS = {
    "==": "equals", "<": "less_than", ">": "greater_than", "<=": "less_than_equal", ">=": "greater_than_equal", "!=": "not_equal",
    "=": "assign", "++": "pre_increment", "--": "pre_decrement", "*=": "assign_product", "+=": "assign_sum", "-=": "assign_difference",
    "/=": "assign_quotient", "&=": "assign_bitwise_and", "|=": "assign_bitwise_or", "<<=": "assign_shift_left", ">>=": "assign_shift_right",
    "%=": "assign_remainder", "^=": "assign_bitwise_xor", "<<": "shift_left", ">>": "shift_right", "%": "remainder", "&": "bitwise_and",
    "|": "bitwise_or", "^": "bitwise_xor", "~": "bitwise_complement", "+": "sum", "-": "difference", "/": "quotient", "*": "product",
}
UNARY = {"+": "unary_plus", "-": "unary_minus"}
NON_OPERATORS = ["", "=>", "&&", "||", "!", "**", "===", "a", "<>", "+-"]


def emit_to_operator(kb, contracts, prop, opnames):
    import native
    hh = chai2c.Header("include/chaiscript/utility/hash.hpp")
    ns = hh.find_anchor("namespace fnv1a")[0]
    sl = hh.slice_function("static constexpr std::uint32_t hash(Itr begin, Itr end) noexcept", after=ns, unique=False)
    r = base_rules()
    c = chai2c.contracts_for(contracts, "fnv1a_hash", prop)
    kb.emit_function("uint32_t fnv1a_hash(const char *begin, const char *end)", sl, r, c.fn, c.loops, "fnv1a_hash")
    ah = chai2c.Header(ALG)
    sl = ah.slice_function("constexpr static Opers to_operator(std::string_view t_str, bool t_is_unary = false) noexcept")
    lits = re.findall(r'case utility::hash\("((?:[^"\\]|\\.)*)"\):', sl.body)
    if len(lits) < 25:
        raise ExtractionBreak("to_operator: case labels not understood")
    exe = native.build("gen_hash", os.path.join(VERIF, "native", "gen_hash.cpp"))
    rc, out, err = native.run(exe, lits)
    vals = out.decode().split()
    if rc != 0 or len(vals) != len(lits):
        raise ExtractionBreak("gen_hash failed")
    kb.native_data.append("case-label constants utility::hash(\"...\") of to_operator: computed by native/gen_hash.cpp from the real hash.hpp")
    table = dict(zip(lits, vals))
    r = base_rules()
    r.add("R8.auto_hash", r"\bconst auto op_hash = utility::hash\(t_str\);", "const uint32_t op_hash = fnv1a_hash(t_str, t_str + t_len);", min_fire=1)
    r.add("R7.opers", r"\bOpers::(\w+)", r"Opers_\1", min_fire=25)

    def pre(body):
        def lab(mm):
            return "case %su:" % table[mm.group(1)]
        return re.sub(r'case utility::hash\("((?:[^"\\]|\\.)*)"\):', lab, body)

    kb.emit_function("int to_operator(const char *t_str, size_t t_len, bool t_is_unary)", sl, r, [], {}, "to_operator", pre=pre)
    # finite specification table as harness assertions (every spelling, unary and binary)
    lines = []
    n = 0
    for sp, name in SPELLINGS.items():
        for un in (0, 1):
            want = UNARY[sp] if (un and sp in UNARY) else name
            lines.append('  __CPROVER_assert(to_operator("%s", %d, %d) == Opers_%s, "[P] to_operator(\\"%s\\", unary=%d) == %s");'
                         % (sp, len(sp), un, want, sp, un, want))
            n += 1
    for sp in NON_OPERATORS:
        lines.append('  __CPROVER_assert(to_operator("%s", %d, 0) == Opers_invalid, "[P] to_operator(\\"%s\\") == invalid");' % (sp, len(sp), sp))
    kb.add("void h_to_operator(void) {\n" + "\n".join(lines) + '\n  VERIF_CANARY("returns");\n}')
    t = Target("to_operator", "h_to_operator", enforce=False, loops=False, unwind=5,
               bounded_note="finite domain: every operator spelling is a literal of length <= 3, the hash loop is fully unwound "
                            "(unwinding assertions on) - complete for this table, not a bounded stand-in")
    t.complete = True
    kb.targets.append(t)
    kb.functions.append("to_operator")


def route_facts(kb, hdr):
    """supporting static facts (scan, not proof): every per-operator wrapper of Boxed_Number
    calls oper() with the opcode of its own name and its own arity, and bootstrap registers
    each wrapper under the spelling the language gives that opcode."""
    txt = hdr.text
    bad = []
    wrappers = {}
    for mm in re.finditer(r"static (?:const )?(?:Boxed_Number|bool) (\w+)\(([^)]*)\)\s*\{\s*return (?:Boxed_Number|boxed_cast<bool>)\(oper\(Operators::Opers::(\w+),([^;]*)\)\);\s*\}", txt):
        name, params, op, args = mm.group(1), mm.group(2), mm.group(3), mm.group(4)
        nparams = len([p for p in params.split(",") if p.strip()])
        nargs = len([a for a in args.rstrip(")").split(",") if a.strip()])
        wrappers[name] = nparams
        if op != name:
            bad.append("%s dispatches opcode %s" % (name, op))
        if nargs != nparams:
            bad.append("%s (%d parameters) calls oper with %d operands" % (name, nparams, nargs))
    if len(wrappers) < 30:
        bad.append("only %d wrappers recognised" % len(wrappers))
    kb.static_facts.append(("boxed_number_wrappers_use_own_opcode_and_arity", not bad, "; ".join(bad) or "%d wrappers" % len(wrappers)))
    bs = chai2c.Header("include/chaiscript/dispatchkit/bootstrap.hpp")
    sl = bs.slice_function("static void opers_arithmetic_pod(Module &m)")
    regs = re.findall(r'm\.add\(fun\(&Boxed_Number::(\w+)\), "([^"]+)"\);', sl.body)
    bad = []
    seen = set()
    for name, sp in regs:
        ar = wrappers.get(name)
        want = UNARY.get(sp) if (ar == 1 and sp in UNARY) else SPELLINGS.get(sp)
        if want != name:
            bad.append("%s registered as %r" % (name, sp))
        seen.add(name)
    missing = (set(SPELLINGS.values()) | set(UNARY.values())) - seen
    if missing:
        bad.append("not registered: %s" % sorted(missing))
    kb.static_facts.append(("function_route_registers_each_opcode_under_its_spelling", not bad, "; ".join(bad) or "%d registrations" % len(regs)))
    kb.slices.append(("opers_arithmetic_pod", sl.where(), sl.sha))


def build_probe():
    import native
    return native.build("probe_number", os.path.join(VERIF, "native", "probe_number.cpp"), flags=["-fno-access-control", "-O0"])


def replay_fn(kb, t, pr, vals, order, rec):
    """native replay: the real Boxed_Number::do_oper against the same expression on the same
    C++ types, over all opcodes x boundary values x lhs kinds for this type pair."""
    import json
    import subprocess
    mm = re.match(r"go_(\w+?)_(\w+)$", t.fn)
    if not mm:
        return {"reproduced": False, "note": "no native probe for " + t.fn}
    exe = build_probe()
    r = subprocess.run([exe, "search", mm.group(1), mm.group(2), "4"], stdout=subprocess.PIPE, stderr=subprocess.PIPE, timeout=600)
    cases = []
    for line in r.stdout.decode("utf-8", "replace").splitlines():
        try:
            cases.append(json.loads(line))
        except ValueError:
            pass
    hint = {k: vals.get(k) for k in ("op", "c_lhs", "c_rhs", "t_oper") if k in vals}
    return {"reproduced": bool(cases), "probe": "native/probe_number.cpp (real Boxed_Number::do_oper vs native C++ expression)",
            "failing_cases": cases[:4], "verifier_trace_inputs": hint, "probe_summary": r.stderr.decode()[-200:]}


def replay_file(rec):
    import subprocess
    cases = (rec.get("native_replay") or {}).get("failing_cases") or []
    if not cases:
        print("replay: no failing input recorded for obligation %s" % rec.get("obligation"))
        return 2
    exe = build_probe()
    rc = 0
    for c in cases:
        r = subprocess.run([exe, "case", c["L"], c["R"], str(c["opcode"]), c["lhs"], c["rhs"], str(c["lhsmode"])],
                           stdout=subprocess.PIPE, stderr=subprocess.PIPE)
        if r.returncode != 0:
            rc = 1
            print("REPRODUCED on real code: %s" % (r.stdout.decode().strip() or c))
        else:
            print("not reproduced: %r" % c)
    return rc


def types_fact(kb):
    import subprocess
    exe = build_probe()
    r = subprocess.run([exe, "types"], stdout=subprocess.PIPE, stderr=subprocess.PIPE)
    kb.static_facts.append(("get_common_type_of_every_builtin_arithmetic_type (native, exhaustive over 25 types, not a proof)",
                            r.returncode == 0, (r.stdout.decode() + r.stderr.decode()).strip()[-300:]))


VISIT_MAP = {"t_int32": "std::int32_t", "t_uint8": "std::uint8_t", "t_int8": "std::int8_t", "t_uint16": "std::uint16_t",
             "t_int16": "std::int16_t", "t_uint32": "std::uint32_t", "t_uint64": "std::uint64_t", "t_int64": "std::int64_t",
             "t_double": "double", "t_float": "float", "t_long_double": "long double"}


def visit_fact(kb, hdr):
    """supporting static fact: Boxed_Number::visit reads a boxed number through a pointer to the
    fixed-width type named by its common type (finite table, 11 cases)."""
    sl = hdr.slice_function("inline static auto visit(const Boxed_Value &bv, Callable &&callable)")
    got = dict(re.findall(r"case Common_Types::(t_\w+):\s*return callable\(\*static_cast<const ([\w: ]+?) \*>\(bv\.get_const_ptr\(\)\)\);", sl.body))
    bad = ["%s read as %s" % (k, got.get(k)) for k in VISIT_MAP if got.get(k) != VISIT_MAP[k]]
    kb.slices.append(("Boxed_Number::visit", sl.where(), sl.sha))
    kb.static_facts.append(("visit_reads_each_common_type_through_its_own_fixed_width_type", not bad, "; ".join(bad) or "11 cases"))


def fold_route_fact(kb):
    """supporting static fact (route agreement): wherever the optimizer or an operator node computes an
    arithmetic value it does so by ONE unconditional call of Boxed_Number::do_oper on the operands - no
    opcode is special-cased around the numeric dispatch.  A statement that mixes the call with a
    conditional operator is a bypass (violation); any other unknown shape is undecided."""
    sites = [("include/chaiscript/language/chaiscript_optimizer.hpp", "struct Constant_Fold", 2),
             ("include/chaiscript/language/chaiscript_eval.hpp", "struct Binary_Operator_AST_Node", 1),
             ("include/chaiscript/language/chaiscript_eval.hpp", "struct Fold_Right_Binary_Operator_AST_Node", 1),
             ("include/chaiscript/language/chaiscript_eval.hpp", "struct Prefix_AST_Node", 1)]
    bad, unknown, n = [], [], 0
    for rel, st, want in sites:
        h = chai2c.Header(rel)
        sl = h.slice_block(st)
        body = sl.body
        calls = [m.start() for m in re.finditer(r"\bBoxed_Number::do_oper\(", body)]
        if len(calls) < want:
            unknown.append("%s: %d call(s) of Boxed_Number::do_oper, expected at least %d" % (st, len(calls), want))
        for pos in calls:
            a = max(body.rfind(";", 0, pos), body.rfind("{", 0, pos), body.rfind("}", 0, pos)) + 1
            b = body.find(";", pos)
            stmt = " ".join(body[a:b + 1].split())
            n += 1
            # nothing may return before the call inside the block that holds it (an early `return` for "trivial" operands
            # bypasses the numeric dispatch and with it the C++ result type)
            depth, j, levels = 0, pos, 0
            while j > 0:
                j -= 1
                if body[j] == "}":
                    depth += 1
                elif body[j] == "{":
                    if depth == 0:
                        levels += 1
                        # up to the body of the member function that holds the call (try block, arithmetic branch, function)
                        if levels == 3 or re.search(r"\)\s*(?:const)?\s*(?:noexcept)?\s*(?:override|final)?\s*$", body[:j]) and not re.search(r"\b(?:if|for|while|switch|catch)\s*\([^{}]*$", body[:j]):
                            break
                        continue
                    depth -= 1
            if re.search(r"\breturn\b", chai2c._mask(body[j:a])):
                bad.append("%s: a return statement precedes the do_oper call in its block" % st)
                continue
            if re.fullmatch(r"(?:const auto \w+ = |auto \w+ = |return )Boxed_Number::do_oper\([\w:\->\.\[\] ,\(\)]*\);", stmt) and "?" not in stmt:
                continue
            (bad if "?" in stmt else unknown).append("%s: `%s`" % (st, stmt[:160]))
        kb.slices.append((st + " (do_oper call sites)", sl.where(), sl.sha))
    kb.static_facts.append(("every_folding_or_operator_site_computes_its_value_by_one_unconditional_Boxed_Number_do_oper_call",
                            False if bad else (None if unknown else True), "; ".join(bad + unknown) or "%d call sites" % n))


def rethrow_fact(kb):
    """supporting static fact: both runtime operator nodes let arithmetic_error through unchanged
    (route agreement on the error class)."""
    ev = chai2c.Header("include/chaiscript/language/chaiscript_eval.hpp")
    bad = []
    for st in ("struct Binary_Operator_AST_Node", "struct Fold_Right_Binary_Operator_AST_Node"):
        sl = ev.slice_block(st)
        body = " ".join(sl.body.split())
        if not re.search(r"catch \(const chaiscript::exception::arithmetic_error &\) \{ throw; \}", body):
            bad.append(st + ": no `catch (const arithmetic_error &) { throw; }` around Boxed_Number::do_oper")
        kb.slices.append((st, sl.where(), sl.sha))
    kb.static_facts.append(("operator_nodes_rethrow_arithmetic_error_unchanged", not bad, "; ".join(bad) or "2 nodes"))
