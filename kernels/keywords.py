"""Kernel K5c: word literals are recognised by exact spelling (property C16, last sentence).
ChaiScript_Parser::is_literal_word, the dispatch skeleton of ChaiScript_Parser::Id() (the
`text_hash` statement and the `switch (text_hash)` with its `case utility::hash("...")` labels;
the case BODIES - AST construction - are dropped and replaced by the ordinal of the case), and
utility::fnv1a::hash.  Name_Validator::is_reserved_word is covered by a static fact."""
import os
import re

from common import (KernelBuild, Target, Rules, ExtractionBreak, base_rules, load_contracts, chai2c, VERIF)

PH = "include/chaiscript/language/chaiscript_parser.hpp"
CM = "include/chaiscript/language/chaiscript_common.hpp"
HH = "include/chaiscript/utility/hash.hpp"

# the words the PROPERTY names (plus the placeholder `_`, which the language documents as special)
WORDS = ["true", "false", "Infinity", "NaN", "__LINE__", "__FILE__", "__FUNC__", "__CLASS__", "_"]

HEADER = r'''
#include "verif_stl.h"
int verif_thrown;
/* std::string_view: (bytes, length) */
typedef struct vsv { const char *data; size_t len; } vsv;
#define SV_REQ(s) ((s).len <= 1000000 && __CPROVER_is_fresh((s).data, (s).len))
/* spelling comparison with a literal of at most 9 characters, loop-free (specification side AND the
 * translation of `string_view == "literal"`; [string.view.comparison]: equal size and equal bytes) */
#define SV_B(s, lit, k) (sizeof(lit) - 1 <= (k) || (s).data[k] == (lit)[k])
#define SV_EQ(s, lit) ((s).len == sizeof(lit) - 1 && SV_B(s, lit, 0) && SV_B(s, lit, 1) && SV_B(s, lit, 2) && SV_B(s, lit, 3) && SV_B(s, lit, 4) \
                       && SV_B(s, lit, 5) && SV_B(s, lit, 6) && SV_B(s, lit, 7) && SV_B(s, lit, 8))
_Static_assert(sizeof("__CLASS__") - 1 <= 9, "literal words are at most 9 characters");
'''


def build(prop, tier="quick"):
    import native
    kb = KernelBuild("keywords", prop)
    contracts = load_contracts("K5c_keywords.contracts")
    kb.add(HEADER)
    spell = " : ".join("SV_EQ(s, \"%s\") ? %d" % (w, k + 1) for k, w in enumerate(WORDS)) + " : 0"
    kb.add("/* specification: ordinal (1..%d) of the word the text is spelled like, 0 for every other text */\n#define SPELLED(s) (%s)" % (len(WORDS), spell))
    ph = chai2c.Header(PH)
    hh = chai2c.Header(HH)

    def C(name):
        return chai2c.contracts_for(contracts, name, prop)

    # --- fnv1a
    ns = hh.find_anchor("namespace fnv1a")[0]
    sl = hh.slice_function("static constexpr std::uint32_t hash(Itr begin, Itr end) noexcept", after=ns, unique=False)
    kb.emit_function("uint32_t fnv1a_hash(const char *begin, const char *end)", sl, base_rules(), [], _no_loops(sl), "fnv1a_hash")

    # --- is_literal_word
    sl = ph.slice_function("static bool is_literal_word(std::string_view t_text) noexcept")
    r = base_rules()
    r.add("R9.sv_eq", r"\bt_text == (\"[A-Za-z_]+\")", r"SV_EQ(t_text, \1)", min_fire=1)
    r.add("R9.sv_size", r"\bt_text\.(?:size|length)\(\)", "t_text.len")
    r.add("R9.sv_empty", r"\bt_text\.empty\(\)", "(t_text.len == 0)")
    r.add("R9.sv_idx", r"\bt_text\[([^\[\]]+)\]", r"t_text.data[\1]")
    r.add("R9.sv_front", r"\bt_text\.front\(\)", "t_text.data[0]")
    c = C("is_literal_word")
    kb.emit_function("bool is_literal_word(vsv t_text)", sl, r, c.fn, c.loops, "is_literal_word", ghost=c.ghost)
    kb.add('void h_is_literal_word(void) { vsv s; is_literal_word(s); VERIF_CANARY("is_literal_word returns normally"); }')
    kb.targets.append(Target("is_literal_word", "h_is_literal_word"))

    # --- the dispatch skeleton of Id()
    ids = ph.slice_function("bool Id(const bool validate)")
    body = ids.body
    hm = re.search(r"const auto text_hash = ([^;]+);", body)
    if not hm:
        raise ExtractionBreak("Id(): `const auto text_hash = ...;` not found")
    sm = re.search(r"\bswitch\s*\(text_hash\)\s*\{", body)
    if not sm:
        raise ExtractionBreak("Id(): switch (text_hash) not found")
    m = chai2c._mask(body)
    ob = sm.end() - 1
    cb = chai2c.match_brace(m, ob)
    inner = body[ob + 1:cb]
    im = chai2c._mask(inner)
    # top-level case labels of the switch, in order
    labels = []
    depth = 0
    for mm in re.finditer(r"[{}]|\bcase\s+utility::hash\(\"((?:[^\"\\]|\\.)*)\"\)\s*:|\bdefault\s*:", inner):
        tok = mm.group(0)
        if im[mm.start()] != inner[mm.start()] and tok not in "{}":
            pass
        if tok == "{":
            depth += 1
        elif tok == "}":
            depth -= 1
        elif depth == 0:
            labels.append(mm.group(1) if tok.startswith("case") else None)
    lits = [x for x in labels if x is not None]
    if None not in labels or len(lits) < 1:
        raise ExtractionBreak("Id(): case labels of switch (text_hash) not understood: %r" % labels)
    if re.search(r"\bcase\b(?!\s+utility::hash\(\")", im):
        raise ExtractionBreak("Id(): a case label that is not utility::hash(\"literal\")")
    exe = native.build("gen_hash", os.path.join(VERIF, "native", "gen_hash.cpp"))
    rc, out, err = native.run(exe, lits + [""])
    vals = out.decode().split()
    if rc != 0 or len(vals) != len(lits) + 1:
        raise ExtractionBreak("gen_hash failed")
    kb.native_data.append("utility::hash(\"...\") of Id()'s %d case labels and of \"\": computed by native/gen_hash.cpp from the real hash.hpp" % len(lits))
    r = base_rules()
    r.add("R4.ilw", r"\bis_literal_word\(text\)", "is_literal_word(text)")
    r.add("R9.hash_text", r"\butility::hash\(text\)", "fnv1a_hash(text.data, text.data + text.len)")
    r.add("R9.hash_empty", r"\butility::hash\(\"\"\)", "%su" % vals[-1])
    expr = r.apply(hm.group(1), ctx="Id.text_hash")
    kb.note_rules(r)
    chai2c.forbidden_scan(expr, ctx="Id.text_hash")
    # the ordinal a case gets is the ordinal of its literal in the property's word list (0 = not a word of the property)
    cases = []
    for lit, v in zip(lits, vals):
        k = WORDS.index(lit) + 1 if lit in WORDS else 100 + len(cases)
        cases.append("    case %su: return %d; /* case utility::hash(\"%s\") */" % (v, k, lit))
    c = C("Id_dispatch")
    fn = ("/* extracted from %s sha256/16=%s: the statement `const auto text_hash = ...` and the case labels of `switch (text_hash)`; "
          "case bodies dropped */\nint Id_dispatch(vsv text)\n%s\n{\n  const uint32_t text_hash = %s;\n  switch (text_hash) {\n%s\n    default: return 0;\n  }\n}\n"
          % (ids.where(), ids.sha, "\n".join("%s /*@CL Id_dispatch fn %s %d*/" % (" ".join(t.split()), cls, i) for i, (cls, t) in enumerate(c.fn)), expr, "\n".join(cases)))
    kb.add(fn)
    kb.slices.append(("Id_dispatch (skeleton of Id)", ids.where(), ids.sha))
    kb.functions.append("Id_dispatch")
    kb.add('void h_Id_dispatch(void) { vsv s; Id_dispatch(s); VERIF_CANARY("Id_dispatch returns normally"); }')
    t = Target("Id_dispatch", "h_Id_dispatch", replace=["is_literal_word"], loops=False, unwind=11,
               bounded_note="fnv1a's loop runs only for texts that is_literal_word accepted (at most 9 bytes): unwound 11 times with unwinding "
                            "assertions on - complete, not a bounded stand-in")
    t.complete = True
    kb.targets.append(t)
    kb.static_facts.append(reserved_fact())
    if tier == "thorough":
        rc, cases, err = _run_probe(["search"])
        kb.static_facts.append(("native battery (thorough tier): probe_words.cpp on the real engine", rc == 0 and not cases, (err.strip() + " " + str(cases[:3]))[:400]))
    kb.assumptions += ["std::string_view modelled as (bytes, length); `view == \"literal\"` is size and byte equality ([string.view.comparison])",
                       "the case BODIES of Id()'s switch (which constant each word becomes) are not under contract: only which case is taken"]
    kb.unverified += ["which value each literal word evaluates to (Constant_AST_Node construction in the case bodies)",
                      "Name_Validator::is_reserved_word beyond the static fact below (std::any_of over a string_view table)"]
    return kb


def _no_loops(sl):
    """fnv1a is only ever inlined and unwound here: its loop gets no contract (splice needs an entry per loop)"""
    n = len(chai2c.find_loops(chai2c.eval_preproc(sl.body, {"__GNUC__"})))
    return {k + 1: [] for k in range(n)}


def reserved_fact():
    cm = chai2c.Header(CM)
    sl = cm.slice_function("static bool is_reserved_word(const T &s) noexcept")
    body = " ".join(sl.body.split())
    words = re.search(r"constexpr std::string_view words\[\] = \{([^}]*)\};", body)
    ok = bool(words) and "word == name" in body and "hash" not in body
    lst = re.findall(r'"([^"]*)"', words.group(1)) if words else []
    return ("Name_Validator::is_reserved_word compares spellings (string_view == string_view over a literal table), never hashes", ok,
            "%s: %d words: %s" % (sl.where(), len(lst), " ".join(lst)))


# ---- native replay: the real engine on the property's words and on near-miss spellings
def build_probe():
    import native
    return native.build("probe_words", os.path.join(VERIF, "native", "probe_words.cpp"))


def _run_probe(args, timeout=900):
    import json
    import subprocess
    r = subprocess.run([build_probe()] + args, stdout=subprocess.PIPE, stderr=subprocess.PIPE, timeout=timeout)
    cases = []
    for line in r.stdout.decode("utf-8", "replace").splitlines():
        try:
            cases.append(json.loads(line))
        except ValueError:
            pass
    return r.returncode, cases, r.stderr.decode("utf-8", "replace")[-300:]


def replay_fn(kb, t, pr, vals, order, rec):
    rc, cases, err = _run_probe(["search"])
    return {"reproduced": bool(cases), "probe": "native/probe_words.cpp (real engine: the 8 word literals evaluate to their constants; 36 near-miss spellings "
            "incl. the FNV-1a collision _yJTCO are ordinary usable identifiers)", "failing_cases": cases[:6], "probe_summary": err.strip()}


def replay_file(rec):
    cases = (rec.get("native_replay") or {}).get("failing_cases") or []
    if not cases:
        print("replay: no failing input recorded; failed obligation: %s :: %s" % (rec.get("obligation"), rec.get("description")))
        return 2
    rc, cs, err = _run_probe(["search"])
    if rc != 0:
        print("REPRODUCED on real code: %s" % cs[:6])
        return 1
    print("not reproduced")
    return 0
