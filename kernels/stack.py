"""Kernel K7: scope / call-stack primitives (dispatchkit.hpp Stack_Holder,
Dispatch_Engine::{new_scope,pop_scope,new_stack,pop_stack,get_stack_data,new_function_call,
pop_function_call,save_function_params}, Type_Conversions::{enable_conversion_saves,take_saves})
and the four RAII guards (chaiscript_common.hpp, dispatchkit.hpp).  Property C09."""
import re

from common import (nondet_bools, KernelBuild, Target, Rules, ExtractionBreak, base_rules, load_contracts, chai2c)

DK = "include/chaiscript/dispatchkit/dispatchkit.hpp"
TC = "include/chaiscript/dispatchkit/type_conversions.hpp"
CM = "include/chaiscript/language/chaiscript_common.hpp"

HEADER = r'''
/* a primitive that throws is a guard constructor that throws: the guard's destructor will NOT run, so the holder must be
 * exactly as the primitive found it (ghost set right before each throw site by the extraction) */
_Bool verif_throw_shape_ok;
#define VERIF_THROW_OK(kind) (verif_throw_shape_ok)
#include "verif_stl.h"
int verif_thrown;
int verif_depth0; _Bool verif_enabled0; size_t verif_saves0;
#define VERIF_SHAPE_UNCHANGED (t_s->call_depth == verif_depth0 && t_saves->enabled == verif_enabled0 && t_saves->saves == verif_saves0)
/* Stack_Holder: stacks = vector<vector<Scope>>, call_params = vector<vector<Boxed_Value>> seen as
 * lengths (names/values are opaque here; lookups are kernel K11) */
typedef struct Stack_Holder { vvec2 stacks; vvec2 call_params; int call_depth; } Stack_Holder;
/* Type_Conversions::Conversion_Saves: saves = vector<Boxed_Value> seen as its length */
typedef struct Conversion_Saves { bool enabled; size_t saves; } Conversion_Saves;
typedef struct Dispatch_Engine { Stack_Holder *m_stack_holder; } Dispatch_Engine;
#define V2_FRESH(v) (__CPROVER_is_fresh((v).items, (v).cap * sizeof(vvec)) && (v).size <= (v).cap && (v).cap <= 1000000)
/* well-formed holder: at least the base stack and the base call-parameter list exist */
#define WF(h) ((h)->stacks.size >= 1 && (h)->call_params.size >= 1 && (h)->call_depth >= 0)
#define HREQ(h) (__CPROVER_is_fresh(h, sizeof(*(h))) && V2_FRESH((h)->stacks) && V2_FRESH((h)->call_params) && WF(h))
#define TOP(h) ((h)->stacks.items[(h)->stacks.size - 1].size)
#define CPTOP(h) ((h)->call_params.items[(h)->call_params.size - 1].size)
'''


def sh_rules():
    r = base_rules()
    r.add("R9.stl.a", r"\bstacks\.back\(\)\.emplace_back\(\);", "vvec_emplace_back(vvec2_back(&self->stacks));")
    r.add("R9.stl.b", r"\bstacks\.emplace_back\(1\);", "vvec2_emplace_back(&self->stacks, 1);")
    r.add("R9.stl.c", r"\bcall_params\.emplace_back\(\);", "vvec2_emplace_back(&self->call_params, 0);")
    r.add("R4.sib", r"(?<![\w.>])(push_stack|push_call_params)\(\);", r"Stack_Holder_\1(self);")
    return r


def de_rules():
    r = base_rules()
    r.add("R4.h1", r"\bt_holder\.(push_stack_data|push_call_params|push_stack)\(\);", r"Stack_Holder_\1(t_holder);")
    r.add("R9.stl.d", r"\bt_holder\.call_params\.pop_back\(\);", "vvec2_pop_back(&t_holder->call_params);")
    r.add("R9.stl.e", r"\bStackData &stack = get_stack_data\(t_holder\);", "vvec *stack = Dispatch_Engine_get_stack_data(t_holder);")
    r.add("R0.assert", r"\bassert\(", "VERIF_CASSERT(")
    r.add("R9.stl.f", r"\bstack\.empty\(\)", "vvec_empty(stack)")
    r.add("R9.stl.g", r"\bstack\.pop_back\(\);", "vvec_pop_back(stack);")
    r.add("R9.stl.h", r"\bt_holder\.stacks\.pop_back\(\);", "vvec2_pop_back(&t_holder->stacks);")
    r.add("R9.stl.i", r"\breturn t_holder\.stacks\.back\(\);", "return vvec2_back(&t_holder->stacks);")
    # function-call bookkeeping
    r.add("R4.ecs", r"\bm_conversions\.enable_conversion_saves\(t_saves, (true|false)\);", r"Type_Conversions_enable_conversion_saves(t_saves, \1);")
    r.add("R4.sfp", r"\bsave_function_params\(m_conversions\.take_saves\(t_saves\)\);",
          "Dispatch_Engine_save_function_params(self->m_stack_holder, Type_Conversions_take_saves(t_saves));")
    r.add("R2.t_s", r"\bt_s\.call_depth\b", "t_s->call_depth")
    r.add("R9.stl.j", r"\bt_s\.call_params\.back\(\)\.clear\(\);", "vvec_clear(vvec2_back(&t_s->call_params));")
    r.add("R9.stl.j2", r"\bt_s\.call_params\.back\(\)\.(empty|size)\(\)", r"vvec_\1(vvec2_back(&t_s->call_params))")
    # save_function_params(Stack_Holder&, std::vector<Boxed_Value>&&): range-for over a vector seen as its length
    r.add("R9.front", r"\bauto &saved = t_s\.call_params\.(front|back)\(\);", r"vvec *saved = vvec2_\1(&t_s->call_params);")
    r.add("R9.bulk", r"\bsaved\.insert\(saved\.begin\(\), std::make_move_iterator\(t_params\.begin\(\)\), std::make_move_iterator\(t_params\.end\(\)\)\);",
          "vvec_insert_front_n(saved, t_params);")
    r.add("R7.shconst", r"\bStack_Holder::(\w+)\b", r"Stack_Holder_\1")
    r.add("R9.rangefor", r"for \(auto &&param : t_params\)", "for (size_t verif_i = 0; verif_i < t_params; ++verif_i)")
    r.add("R9.stl.k", r"\bt_s\.call_params\.back\(\)\.insert\(t_s\.call_params\.back\(\)\.begin\(\), std::move\(param\)\);",
          "vvec_insert_front_n(vvec2_back(&t_s->call_params), 1);")
    return r


def tc_rules():
    r = base_rules()
    r.add("R2.saves", r"\bt_saves\.(enabled|saves)\b", r"t_saves->\1")
    r.add("R9.vec", r"\bstd::vector<Boxed_Value> ret;", "size_t ret = 0;")
    r.add("R9.vec_copy", r"\bstd::vector<Boxed_Value> ret\(t_saves->saves\);", "size_t ret = t_saves->saves; /* copy of the list, seen as its length */")
    r.add("R9.swap", r"\bstd::swap\(ret, t_saves->saves\);", "VERIF_SWAP(ret, t_saves->saves);")
    return r


def guard_facts(kb):
    """supporting static facts (scan, not proof): each push primitive is called only from
    the constructor of its RAII guard and the matching pop only from that guard's destructor."""
    cm = chai2c.Header(CM)
    dk = chai2c.Header(DK)
    import os
    ev = chai2c.Header("include/chaiscript/language/chaiscript_eval.hpp")
    en = chai2c.Header("include/chaiscript/language/chaiscript_engine.hpp")
    opt = chai2c.Header("include/chaiscript/language/chaiscript_optimizer.hpp")
    allsrc = {h.relpath: chai2c.strip_comments(h.text) for h in (cm, dk, ev, en, opt)}
    pairs = [("Scope_Push_Pop", "new_scope", "pop_scope", cm), ("Function_Push_Pop", "new_function_call", "pop_function_call", cm),
             ("Stack_Push_Pop", "new_stack", "pop_stack", cm), ("This_Foist", "new_scope", "pop_scope", dk)]
    for guard, push, pop, hdr in pairs:
        sl = hdr.slice_block("struct " + guard)
        body = sl.body
        ctor = re.search(r"%s\([^)]*\)\s*:\s*[^{]*\{([^}]*)\}" % guard, body)
        dtor = re.search(r"~%s\(\)\s*\{([^}]*)\}" % guard, body)
        ok = bool(ctor and dtor and re.search(r"\b%s\(" % push, ctor.group(1)) and re.search(r"\b%s\(" % pop, dtor.group(1))
                  and not re.search(r"\b%s\(" % pop, ctor.group(1)) and not re.search(r"\b%s\(" % push, dtor.group(1)))
        kb.static_facts.append(("guard_%s_pushes_in_ctor_pops_in_dtor" % guard, ok, "%s: ctor calls %s, dtor calls %s" % (sl.where(), push, pop)))
        kb.slices.append(("struct " + guard, sl.where(), sl.sha))
    # call sites of the primitives outside their own definitions / the guards
    allowed_ctx = ("Scope_Push_Pop", "Function_Push_Pop", "Stack_Push_Pop", "This_Foist")
    bad = []
    total = 0
    for rel, txt in allsrc.items():
        for mm in re.finditer(r"(?:(?:->|\.)\s*|(?<![\w>.:~]))(new_scope|pop_scope|new_stack|pop_stack|new_function_call|pop_function_call)\s*\(", txt):
            if re.search(r"\bvoid\s+$", txt[max(0, mm.start() - 16):mm.start()]):
                continue  # the definition of the primitive itself
            if re.search(r"\{\s*$", txt[max(0, mm.start() - 4):mm.start()]) and re.search(r"\bvoid (new_scope|pop_scope|new_stack|pop_stack|new_function_call|pop_function_call)\(\)\s*\{\s*$", txt[max(0, mm.start() - 60):mm.start()]):
                continue  # the zero-argument forwarding overload `void pop_scope() { pop_scope(*m_stack_holder); }`
            total += 1
            # enclosing struct: nearest preceding 'struct X {' whose block contains the site
            pos = mm.start()
            encl = None
            for sm in re.finditer(r"\bstruct (\w+)\b[^;{]*\{", txt[:pos]):
                cb = chai2c.match_brace(chai2c._mask(txt), sm.end() - 1)
                if cb > pos:
                    encl = sm.group(1)
            if encl not in allowed_ctx:
                bad.append("%s:%d %s" % (rel, txt.count("\n", 0, pos) + 1, mm.group(1)))
    # --- the guards are real objects that live as long as the construct is evaluated
    evtxt = allsrc["include/chaiscript/language/chaiscript_eval.hpp"]
    evm = chai2c._mask(evtxt)
    temps = []
    for rel, txt in allsrc.items():
        for mm in re.finditer(r"\b(Scope_Push_Pop|Function_Push_Pop|Stack_Push_Pop)\s*[({]", txt):
            pre = txt[max(0, mm.start() - 12):mm.start()]
            if re.search(r"(struct|~|explicit|&|\*)\s*$", pre) or re.search(r"\b(Scope_Push_Pop|Function_Push_Pop|Stack_Push_Pop)\s*\(\s*(const\s+)?(Scope_Push_Pop|Function_Push_Pop|Stack_Push_Pop|chaiscript::detail::Dispatch_State)\b", txt[mm.start():mm.start() + 120]):
                continue  # declaration / constructor / deleted copy operations of the guard itself
            temps.append("%s:%d" % (rel, txt.count("\n", 0, mm.start()) + 1))
    kb.static_facts.append(("no_guard_is_created_as_an_unnamed_temporary (it would be destroyed before the construct is evaluated)", not temps,
                            "unnamed guard temporaries: %s" % (temps or "none")))
    expect = {"Block": "Scope_Push_Pop", "While": "Scope_Push_Pop", "For": "Scope_Push_Pop", "Ranged_For": "Scope_Push_Pop", "Switch": "Scope_Push_Pop",
              "Case": "Scope_Push_Pop", "Default": "Scope_Push_Pop", "Class": "Scope_Push_Pop", "Try": "Scope_Push_Pop",
              "Fun_Call": "Function_Push_Pop", "Equation": "Function_Push_Pop", "Binary_Operator": "Function_Push_Pop",
              "Fold_Right_Binary_Operator": "Function_Push_Pop", "Array_Call": "Function_Push_Pop", "Dot_Access": "Function_Push_Pop", "Prefix": "Function_Push_Pop"}
    missing, late, unknown = [], [], []
    for node, guard in expect.items():
        mm = re.search(r"\bstruct %s_AST_Node\b[^;{]*\{" % node, evtxt)
        if not mm:
            unknown.append(node)
            continue
        cb = chai2c.match_brace(evm, mm.end() - 1)
        body = evtxt[mm.end():cb]
        g = re.search(r"\b%s\s+\w+\s*\(" % guard, body)
        if not g:
            missing.append("%s_AST_Node has no named %s" % (node, guard))
            continue
    kb.static_facts.append(("every_scope_or_call_opening_node_type_still_holds_its_named_guard",
                            False if (missing or late) else (None if unknown else True),
                            "; ".join(missing + late + ["node not found: %s" % u for u in unknown]) or "%d node types" % len(expect)))
    efm = re.search(r"\bBoxed_Value eval_function\(", evtxt)
    ok = False
    if efm:
        ob = evtxt.index("{", evtxt.index(")", efm.end()))
        cb = chai2c.match_brace(evm, ob)
        body = evtxt[ob:cb]
        g = re.search(r"\bStack_Push_Pop\s+\w+\s*\(", body)
        a = re.search(r"\.add_object\(", body)
        e = re.search(r"\.eval\(", body)
        ok = bool(g and a and e and g.start() < a.start() and g.start() < e.start())
    kb.static_facts.append(("eval_function_opens_the_callee_stack_before_binding_parameters_and_evaluating_the_body", ok if efm else None, "chaiscript_eval.hpp eval_function"))
    kb.static_facts.append(("push_pop_primitives_called_only_from_the_four_guards", not bad,
                            "%d call sites scanned in chaiscript_common/dispatchkit/chaiscript_eval/chaiscript_engine/chaiscript_optimizer; outside a guard: %s"
                            % (total, bad or "none")))


def build(prop, tier="quick"):
    kb = KernelBuild("stack", prop)
    contracts = load_contracts("K7_stack.contracts")
    kb.add(HEADER)
    dk = chai2c.Header(DK)
    tc = chai2c.Header(TC)

    def C(name):
        return chai2c.contracts_for(contracts, name, prop)

    protos = ["void Stack_Holder_push_stack_data(Stack_Holder *self)", "void Stack_Holder_push_stack(Stack_Holder *self)",
              "void Stack_Holder_push_call_params(Stack_Holder *self)", "vvec *Dispatch_Engine_get_stack_data(Stack_Holder *t_holder)",
              "void Type_Conversions_enable_conversion_saves(Conversion_Saves *t_saves, bool t_val)",
              "size_t Type_Conversions_take_saves(Conversion_Saves *t_saves)",
              "void Dispatch_Engine_save_function_params(Stack_Holder *t_s, size_t t_params)"]
    kb.add("\n".join(p + ";" for p in protos))
    shs = dk.slice_block("struct Stack_Holder")
    for nm, val in re.findall(r"static constexpr (?:int|size_t|std::size_t) (\w+) = (\d+);", chai2c.strip_comments(shs.body)):
        kb.add("#define Stack_Holder_%s %s /* static constexpr member of Stack_Holder */" % (nm, val))

    from common import throw_rule
    thr = throw_rule({"runtime_error": "K_runtime_error", "range_error": "K_range_error", "eval_error": "K_eval_error"}, DK)

    def throws_pre(cname, user_pre=None):
        def f(b):
            if user_pre:
                b = user_pre(b)
            b2, n = thr(b, cname)
            if n:
                b2 = b2.replace("VERIF_THROW(", "verif_throw_shape_ok = VERIF_SHAPE_UNCHANGED; VERIF_THROW(")
            return b2
        return f

    def emit(hdr, anchor, csig, cname, rules, after=0, pre=None, unique=True):
        sl = hdr.slice_function(anchor, after=after, unique=unique)
        pre = throws_pre(cname, pre)
        c = C(cname)
        kb.emit_function(csig, sl, rules, c.fn, c.loops, cname, pre=pre, ghost=c.ghost)

    emit(dk, "Stack_Holder()", "void Stack_Holder_ctor(Stack_Holder *self)", "Stack_Holder_ctor", sh_rules(), after=shs.ob,
         pre=lambda b: "self->stacks.size = 0; self->call_params.size = 0; self->call_depth = 0; /* R9: default member initialisers */" + b)
    if not re.search(r"int call_depth = 0;", shs.body):
        raise ExtractionBreak("Stack_Holder::call_depth initialiser changed")
    emit(dk, "void push_stack_data()", protos[0], "Stack_Holder_push_stack_data", sh_rules(), after=shs.ob)
    emit(dk, "void push_stack()", protos[1], "Stack_Holder_push_stack", sh_rules(), after=shs.ob)
    emit(dk, "void push_call_params()", protos[2], "Stack_Holder_push_call_params", sh_rules(), after=shs.ob)
    emit(dk, "static StackData &get_stack_data(Stack_Holder &t_holder) noexcept", protos[3], "Dispatch_Engine_get_stack_data", de_rules())
    emit(dk, "static void new_scope(Stack_Holder &t_holder)", "void Dispatch_Engine_new_scope(Stack_Holder *t_holder)",
         "Dispatch_Engine_new_scope", de_rules())
    emit(dk, "static void pop_scope(Stack_Holder &t_holder)", "void Dispatch_Engine_pop_scope(Stack_Holder *t_holder)",
         "Dispatch_Engine_pop_scope", de_rules())
    emit(dk, "static void new_stack(Stack_Holder &t_holder)", "void Dispatch_Engine_new_stack(Stack_Holder *t_holder)",
         "Dispatch_Engine_new_stack", de_rules())
    emit(dk, "static void pop_stack(Stack_Holder &t_holder)", "void Dispatch_Engine_pop_stack(Stack_Holder *t_holder)",
         "Dispatch_Engine_pop_stack", de_rules())
    emit(tc, "static void enable_conversion_saves(Conversion_Saves &t_saves, bool t_val)", protos[4],
         "Type_Conversions_enable_conversion_saves", tc_rules())
    emit(tc, "std::vector<Boxed_Value> take_saves(Conversion_Saves &t_saves)", protos[5], "Type_Conversions_take_saves", tc_rules())
    emit(dk, "static void save_function_params(Stack_Holder &t_s, std::vector<Boxed_Value> &&t_params)", protos[6],
         "Dispatch_Engine_save_function_params", de_rules())
    emit(dk, "void new_function_call(Stack_Holder &t_s, Type_Conversions::Conversion_Saves &t_saves)",
         "void Dispatch_Engine_new_function_call(Dispatch_Engine *self, Stack_Holder *t_s, Conversion_Saves *t_saves)",
         "Dispatch_Engine_new_function_call", de_rules())
    emit(dk, "void pop_function_call(Stack_Holder &t_s, Type_Conversions::Conversion_Saves &t_saves)",
         "void Dispatch_Engine_pop_function_call(Dispatch_Engine *self, Stack_Holder *t_s, Conversion_Saves *t_saves)",
         "Dispatch_Engine_pop_function_call", de_rules())

    def H(cname, decl, call, replace=(), loops=True):
        kb.add("void h_%s(void) { %s %s; VERIF_CANARY(\"%s returns normally\"); }" % (cname, nondet_bools(decl), call, cname))
        t = Target(cname, "h_" + cname, replace=list(replace), loops=loops)
        kb.targets.append(t)
        return t

    H("Stack_Holder_ctor", "Stack_Holder *h;", "Stack_Holder_ctor(h)")
    H("Stack_Holder_push_stack_data", "Stack_Holder *h;", "Stack_Holder_push_stack_data(h)")
    H("Stack_Holder_push_stack", "Stack_Holder *h;", "Stack_Holder_push_stack(h)")
    H("Stack_Holder_push_call_params", "Stack_Holder *h;", "Stack_Holder_push_call_params(h)")
    H("Dispatch_Engine_get_stack_data", "Stack_Holder *h;", "Dispatch_Engine_get_stack_data(h)")
    H("Dispatch_Engine_new_scope", "Stack_Holder *h;", "Dispatch_Engine_new_scope(h)")
    H("Dispatch_Engine_pop_scope", "Stack_Holder *h;", "Dispatch_Engine_pop_scope(h)")
    H("Dispatch_Engine_new_stack", "Stack_Holder *h;", "Dispatch_Engine_new_stack(h)")
    H("Dispatch_Engine_pop_stack", "Stack_Holder *h;", "Dispatch_Engine_pop_stack(h)")
    H("Type_Conversions_enable_conversion_saves", "Conversion_Saves *s; bool v;", "Type_Conversions_enable_conversion_saves(s, v)")
    H("Type_Conversions_take_saves", "Conversion_Saves *s;", "Type_Conversions_take_saves(s)")
    t = H("Dispatch_Engine_save_function_params", "Stack_Holder *h; size_t n;", "Dispatch_Engine_save_function_params(h, n)")
    t.expect_loops = True
    H("Dispatch_Engine_new_function_call", "Dispatch_Engine *e; Stack_Holder *h; Conversion_Saves *s;",
      "Dispatch_Engine_new_function_call(e, h, s)", replace=["Dispatch_Engine_save_function_params"])
    H("Dispatch_Engine_pop_function_call", "Dispatch_Engine *e; Stack_Holder *h; Conversion_Saves *s;",
      "Dispatch_Engine_pop_function_call(e, h, s)")

    # --- pairing / guard lemmas: {shape = s} ctor; inner; dtor {shape = s}.  `inner` is any
    # effect that preserves the shape (the induction hypothesis for nested guards), given as a
    # contract-only function.
    c = C("verif_inner")
    kb.emit_stub("void verif_inner(Stack_Holder *h, Conversion_Saves *s)", c.fn, "verif_inner")
    kb.functions.append("verif_inner (assumed contract: induction hypothesis of the nesting argument)")
    # the lemma bodies are the REAL constructor and destructor bodies of the guards (chaiscript_common.hpp), cut out on every
    # run, with `inner` between them.  A throw inside a guard constructor must find the holder as the constructor found it:
    # the destructor of an object whose constructor throws never runs.
    cmh = chai2c.Header(CM)
    from common import throw_rule
    thr = throw_rule({"eval_error": "K_eval_error"}, CM)

    def guard_body(guard):
        gs = cmh.slice_block("struct " + guard)
        ctor = cmh.slice_function("explicit %s(const chaiscript::detail::Dispatch_State &t_ds)" % guard, after=gs.ob)
        dtor = cmh.slice_function("~%s()" % guard, after=gs.ob)
        if ctor.cb > gs.cb or dtor.cb > gs.cb:
            raise ExtractionBreak("constructor / destructor of %s not found inside the struct" % guard)
        if not re.fullmatch(r"explicit %s\(const chaiscript::detail::Dispatch_State &t_ds\)\s*:\s*m_ds\(t_ds\)\s*" % guard, ctor.sig_tail):
            raise ExtractionBreak("%s: constructor initializer list changed" % guard)
        consts = "".join("static const %s %s = %s; " % (t.replace("std::", ""), n, v) for t, n, v in
                         re.findall(r"static constexpr ((?:std::)?(?:int|size_t|unsigned|long)) (\w+) = (\d+);", chai2c.strip_comments(gs.body)))
        r = Rules("guard")
        r.add("R9.g1", r"\bm_ds->(new_scope|pop_scope|new_stack|pop_stack)\(m_ds\.stack_holder\(\)\);", r"Dispatch_Engine_\1(h);")
        r.add("R9.g2", r"\bm_ds->(new_function_call|pop_function_call)\(m_ds\.stack_holder\(\), m_ds\.conversion_saves\(\)\);", r"Dispatch_Engine_\1(e, h, s);")
        r.add("R9.g3", r"\bm_ds\.stack_holder\(\)\.", "h->")
        r.extend(base_rules())
        out = []
        for sl, what in ((ctor, "ctor"), (dtor, "dtor")):
            b, n = thr(sl.body, "%s_%s" % (guard, what))
            b = b.replace("VERIF_THROW(", "verif_throw_shape_ok = VERIF_LEMMA_SHAPE_UNCHANGED; VERIF_THROW(")
            b = r.apply(b, ctx=guard)
            chai2c.forbidden_scan(b, ctx=guard)
            if not re.search(r"\bDispatch_Engine_\w+\(", b):
                raise ExtractionBreak("%s %s: no push / pop primitive call found" % (guard, what))
            out.append(b)
            kb.slices.append(("%s::%s" % (guard, what), sl.where(), sl.sha))
        kb.note_rules(r)
        return ("%s const int verif_d0 = h->call_depth; const size_t verif_cp0 = h->call_params.size, verif_st0 = h->stacks.size, verif_top0 = TOP(h);"
                " /* constructor */ %s verif_inner(h, s); /* destructor */ %s" % (consts, out[0], out[1]))

    kb.add("#define VERIF_LEMMA_SHAPE_UNCHANGED (h->call_depth == verif_d0 && h->call_params.size == verif_cp0 && h->stacks.size == verif_st0 && TOP(h) == verif_top0)")
    lemmas = {
        "lemma_Scope_Push_Pop": (guard_body("Scope_Push_Pop"), ["Dispatch_Engine_new_scope", "Dispatch_Engine_pop_scope"]),
        "lemma_Stack_Push_Pop": (guard_body("Stack_Push_Pop"), ["Dispatch_Engine_new_stack", "Dispatch_Engine_pop_stack"]),
        "lemma_Function_Push_Pop": (guard_body("Function_Push_Pop"), ["Dispatch_Engine_new_function_call", "Dispatch_Engine_pop_function_call"]),
    }
    for name, (body, repl) in lemmas.items():
        c = C(name)
        kb.emit_stub("void %s(Dispatch_Engine *e, Stack_Holder *h, Conversion_Saves *s)" % name, c.fn, name, body=body)
        kb.functions.append(name)
        kb.add("void h_%s(void) { Dispatch_Engine *e; Stack_Holder *h; Conversion_Saves *s; %s(e, h, s); VERIF_CANARY(\"%s returns normally\"); }"
               % (name, name, name))
        kb.targets.append(Target(name, "h_" + name, replace=repl + ["verif_inner"], solver="sat:cadical"))
    guard_facts(kb)
    kb.assumptions += [
        "A2: C++ runs the destructor of a complete automatic guard object on every exit from its scope, including stack unwinding",
        "vectors are modelled by their lengths with a ghost capacity (allocation succeeds; std::bad_alloc is outside the property)",
        "verif_inner: assumed contract (the induction hypothesis: nested evaluation preserves the shape and may throw)",
        "new_function_call saves into the engine's own holder (*m_stack_holder); the contracts require it to be the holder passed in, "
        "which is how Dispatch_State is constructed (dispatchkit.hpp:1168-1172)",
    ]
    kb.unverified += ["that no AST node mutates the Stack_Holder by other means than the four guards (the scan covers direct calls only)",
                      "Try_AST_Node's catch scopes / finally, do_eval/eval wrappers in chaiscript_engine.hpp (exception control flow)",
                      "save_function_params(const Function_Params&) overload (iterator-range insert)"]
    return kb
