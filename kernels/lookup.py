"""Kernel K11: variable lookup and its per-node cache (property C04).
  Dispatch_Engine::get_object              (dispatchkit.hpp)      - search path, hint encoding, hinted fast path, global / function order
  utility::QuickFlatMap::find(s, hint)     (quick_flat_map.hpp)   - a hint never changes which element is found
The frame is modelled as (number of scopes, size of each scope) with the names as an uninterpreted
function of (scope index, slot); values are identified by where they live (scope from top, slot)."""
import re

from common import (KernelBuild, Target, Rules, ExtractionBreak, base_rules, load_contracts, chai2c)

DK = "include/chaiscript/dispatchkit/dispatchkit.hpp"
QF = "include/chaiscript/utility/quick_flat_map.hpp"

HEADER = r'''
#define VERIF_ALLOWED KBIT(K_range_error)
#include "verif_stl.h"
int verif_thrown;
#define MAXSCOPES 4096
#define MAXSLOTS 65536
size_t verif_d, verif_slot, verif_k; /* ghosts: an arbitrary scope distance from the top / slot / index (never assigned: "for all") */
/* the hint word as the property's anchor describes it: bit 31 located, bit 30 is_local, bits 16-27 scope distance from the top, bits 0-15 slot */
#define SPEC_ENC(d, s) (0x80000000ul | 0x40000000ul | ((unsigned long)(d) << 16) | (unsigned long)(s))
typedef unsigned long uint_fast32_t_; /* glibc x86-64: uint_fast32_t is unsigned long (64 bit) */
/* the current call frame: n scopes (index 0 = outermost), sizes[i] entries in scope i; the name stored
 * in slot s of scope i is the uninterpreted function KEY(i, s) (names are interned ids, A6) */
typedef struct vstack { size_t n; const size_t *sizes; } vstack;
int __CPROVER_uninterpreted_key(size_t scope, size_t slot);
#ifdef VERIF_CBMC
#define KEY(i, s) __CPROVER_uninterpreted_key((i), (s))
#else
#define KEY(i, s) 0
#endif
enum { R_LOCAL = 1, R_GLOBAL = 2, R_FUNCTION = 3 };
typedef struct VRes { int kind; size_t from_top; size_t slot; } VRes; /* where the returned Boxed_Value lives */
static inline VRes vres(int kind, size_t from_top, size_t slot) { VRes r; r.kind = kind; r.from_top = from_top; r.slot = slot; return r; }
/* stack[idx] and Scope::at_index(idx): both unchecked in C++ - the index must be in range */
static inline size_t vstack_index(const vstack *st, size_t idx) { VERIF_STD_PRE(idx < st->n, "stack[idx]: idx < size() (SmallVector / vector operator[] is unchecked)"); return idx; }
static inline size_t vscope_at_index(const vstack *st, size_t scope, size_t idx) { VERIF_STD_PRE(scope < st->n && idx < st->sizes[scope], "Scope::at_index(idx): idx < size() (data[idx] is unchecked)"); return idx; }
size_t verif_nfuncs; /* number of function objects */
int __CPROVER_uninterpreted_fkey(size_t idx);
#ifdef VERIF_CBMC
#define FKEY(i) __CPROVER_uninterpreted_fkey(i)
#else
#define FKEY(i) 0
#endif
typedef struct VFRes { size_t first; size_t elem; } VFRes; /* (new hint, index of the element returned; NOTFOUND = none) */
#define NOTFOUND ((size_t)-1)
static inline VFRes vfres(size_t first, size_t elem) { VFRes r; r.first = first; r.elem = elem; return r; }
_Bool verif_global_exists; /* a global named `name` exists */
size_t verif_function_index; /* index of the function object named `name` (get_function_object_int's result) */
#define STACK_REQ(st) (__CPROVER_is_fresh(st, sizeof(vstack)) && (st)->n >= 1 && (st)->n <= MAXSCOPES && __CPROVER_is_fresh((st)->sizes, (st)->n * sizeof(size_t)))
'''


def build(prop, tier="quick"):
    kb = KernelBuild("lookup", prop)
    contracts = load_contracts("K11_lookup.contracts")
    kb.add(HEADER)
    dk = chai2c.Header(DK)
    qf = chai2c.Header(QF)

    def C(name):
        return chai2c.contracts_for(contracts, name, prop)

    sl = dk.slice_function("Boxed_Value get_object(std::string_view name, std::atomic_uint_fast32_t &t_loc, Stack_Holder &t_holder) const")
    body = sl.body
    em = re.search(r"enum class Loc : uint_fast32_t \{([^}]*)\};", body)
    if not em:
        raise ExtractionBreak("get_object: enum class Loc not found")
    consts = dict(re.findall(r"(\w+)\s*=\s*(0x[0-9A-Fa-f]+)", em.group(1)))
    if set(consts) != {"located", "is_local", "stack_mask", "loc_mask"}:
        raise ExtractionBreak("get_object: enum Loc changed: %r" % consts)
    kb.add("enum { " + ", ".join("Loc_%s = %su" % (k, v) for k, v in consts.items()) + " }; /* extracted from %s */" % sl.where())
    kb.native_data.append("enum class Loc of get_object: %s" % consts)

    r = Rules("get_object")
    r.add("R9.enum", r"enum class Loc : uint_fast32_t \{[^}]*\};", "/* enum class Loc: emitted above */", min_fire=1)
    r.add("R7.loc", r"\bstatic_cast<uint_fast32_t>\(Loc::(\w+)\)", r"((uint_fast32_t_)Loc_\1)", min_fire=4)
    r.add("R9.loc_read", r"\buint_fast32_t loc = t_loc;", "uint_fast32_t_ loc = *t_loc;", min_fire=1)
    r.add("R9.stackref", r"\bauto &stack = get_stack_data\(t_holder\);", "const vstack *stack = t_holder;", min_fire=2)
    # the search: reverse iteration over the scopes, forward over the entries of each
    r.add("R9.rloop", r"for \(auto stack_elem = stack\.rbegin\(\); stack_elem != stack\.rend\(\); \+\+stack_elem\)",
          "for (size_t stack_elem = 0; stack_elem != stack->n; ++stack_elem)", min_fire=1)
    r.add("R9.floop", r"for \(auto s = stack_elem->begin\(\); s != stack_elem->end\(\); \+\+s\)",
          "for (size_t s = 0; s != stack->sizes[stack->n - 1 - stack_elem]; ++s)", min_fire=1)
    r.add("R9.key", r"\bs->first == name\b", "KEY(stack->n - 1 - stack_elem, s) == name", min_fire=1)
    r.add("R9.dist_scope", r"\bstd::distance\(stack\.rbegin\(\), stack_elem\)", "((long)stack_elem)", min_fire=1)
    r.add("R9.dist_slot", r"\bstd::distance\(stack_elem->begin\(\), s\)", "((long)s)", min_fire=1)
    r.add("R9.ret_local", r"\breturn s->second;", "return vres(R_LOCAL, stack_elem, s);", min_fire=1)
    r.add("R9.tloc_w", r"(?<![\w*])t_loc = ", "*t_loc = ")
    # the hinted fast path
    r.add("R9.hinted", r"\breturn stack\[(.+?)\]\.at_index\(\s*(.+?)\);",
          r"{ const size_t verif_scope = vstack_index(stack, \1); const size_t verif_slot = vscope_at_index(stack, verif_scope, \2); "
          r"__CPROVER_assert(KEY(verif_scope, verif_slot) == name, \"[P] the hinted slot holds a variable of the requested name\"); "
          r"return vres(R_LOCAL, stack->n - 1 - verif_scope, verif_slot); }", min_fire=1, flags=re.S)
    r.add("R9.ssize", r"\bstack\.size\(\)", "stack->n")
    # globals, then function objects
    r.add("R0.lock", r"\bchaiscript::detail::threading::shared_lock<chaiscript::detail::threading::shared_mutex> l\(m_mutex\);", "/* R0: lock */", min_fire=1)
    r.add("R9.gfind", r"\bconst auto itr = m_state\.m_global_objects\.find\(name\);", "const _Bool itr = verif_global_exists;", min_fire=1)
    r.add("R9.gend", r"\bitr != m_state\.m_global_objects\.end\(\)", "itr", min_fire=1)
    r.add("R9.gret", r"\breturn itr->second;", "return vres(R_GLOBAL, 0, 0);", min_fire=1)
    r.add("R9.fobj", r"\bauto obj = get_function_object_int\(name, loc\);", "const size_t obj_first = verif_function_index; /* get_function_object_int(name, loc).first */", min_fire=1)
    r.add("R9.fobj1", r"\bobj\.first\b", "obj_first")
    r.add("R9.fret", r"\breturn obj\.second;", "return vres(R_FUNCTION, 0, obj_first);", min_fire=1)
    # direct reads of the boxed-function table (C++17 if-with-initialiser form)
    r.add("R9.funs_init", r"if \(const auto &funs = get_boxed_functions_int\(\); ", "if (")
    r.add("R9.funs_size", r"\bfuns\.size\(\)", "verif_nfuncs")
    r.add("R9.funs_key", r"\bfuns\.data\[([^\[\]]+)\]\.first == name\b", r"FKEY(\1) == name")
    r.add("R9.funs_ret", r"\breturn funs\.data\[([^\[\]]+)\]\.second;", r"return vres(R_FUNCTION, 0, \1);")
    r.add("R6.fcast", r"\buint_fast32_t\(", "(uint_fast32_t_)(")
    r.add("R6.ufast", r"\buint_fast32_t\b", "uint_fast32_t_")
    r.extend(base_rules())

    def fixq(b):
        return b.replace('\\"', '"')

    for variant in ("get_object", "get_object_small"):
        c = C(variant)
        rr = Rules(variant)
        rr.extend(r)
        kb.emit_function("VRes %s(int name, uint_fast32_t_ *t_loc, const vstack *t_holder)" % variant, sl, rr, c.fn, _loopc(c, sl), variant, post=fixq, ghost=c.ghost)

    # --- targets
    # (1) search on a fresh hint word: bounded stand-in (<= 3 scopes x <= 3 entries), loops unwound
    kb.add('void h_get_object_search(void) { int nm; uint_fast32_t_ *l; const vstack *st; get_object_small(nm, l, st); VERIF_CANARY("search returns normally"); }')
    t = Target("get_object_small", "h_get_object_search", loops=False, unwind=5, objbits=8, canary=False, timeout=1800,
               bounded_note="frames of at most 3 scopes with at most 3 entries each (the nested iterator loops are unwound, unwinding assertions on)")
    kb.targets.append(t)
    # (2) hinted fast path with a hint this function itself would have stored for this layout: loop-free, full domain
    kb.add('void h_get_object_fresh_hint(void) { int nm; uint_fast32_t_ *l; const vstack *st; get_object(nm, l, st); VERIF_CANARY("hinted lookup returns normally"); }')
    t = Target("get_object", "h_get_object_fresh_hint", loops=False, unwind=1, objbits=8,
               bounded_note="the hinted path is loop-free; the search loops are unreachable under the contract (hint word != 0), which the unwinding assertions prove")
    t.complete = True
    kb.targets.append(t)
    # (3) hinted fast path with an ARBITRARY hint word (what an earlier evaluation under another layout stored)
    c = C("get_object_stale")
    kb.emit_stub("VRes get_object_stale(int name, uint_fast32_t_ *t_loc, const vstack *t_holder)", c.fn, "get_object_stale",
                 body=" return get_object(name, t_loc, t_holder); ")
    kb.add('void h_get_object_stale_hint(void) { int nm; uint_fast32_t_ *l; const vstack *st; get_object_stale(nm, l, st); VERIF_CANARY("stale lookup returns normally"); }')
    t = Target("get_object_stale", "h_get_object_stale_hint", loops=False, unwind=1, objbits=8, canary=False,
               bounded_note="loop-free path (hint word has the is_local bit)")
    t.complete = True
    kb.targets.append(t)
    # (4) a hint word without the is_local bit (the node resolved to a global / function before): globals win over functions
    c = C("get_object_nonlocal")
    kb.emit_stub("VRes get_object_nonlocal(int name, uint_fast32_t_ *t_loc, const vstack *t_holder)", c.fn, "get_object_nonlocal",
                 body=" return get_object(name, t_loc, t_holder); ")
    kb.add('void h_get_object_nonlocal_hint(void) { int nm; uint_fast32_t_ *l; const vstack *st; get_object_nonlocal(nm, l, st); VERIF_CANARY("non-local lookup returns normally"); }')
    t = Target("get_object_nonlocal", "h_get_object_nonlocal_hint", loops=False, unwind=1, objbits=8, bounded_note="loop-free path (hint word != 0 without the is_local bit)")
    t.complete = True
    kb.targets.append(t)
    kb.functions.append("get_object (non-local hint: global before function)")
    kb.functions += ["get_object (hinted path, fresh hint)", "get_object (hinted path, arbitrary hint: known finding)", "get_object (search path, bounded)"]

    find_kernel(kb, qf, C)
    function_kernel(kb, dk, C)
    if tier == "thorough":
        import engine_probe
        rc, cases, err = engine_probe.run("c04")
        kb.static_facts.append(("native battery (thorough tier): probe_engine.cpp c04 scenarios on the real engine", rc == 0 and not cases, (err.strip() + " " + str(cases[:3]))[:400]))
    kb.assumptions += [
        "A6: names are interned ids; the name in slot s of scope i is an uninterpreted function of (i, s); scope contents do not change during one lookup",
        "uint_fast32_t is a 64-bit unsigned long (glibc x86-64); frames of at most 4096 scopes with at most 65536 entries each - the widths of the hint word's "
        "fields (beyond them the encoding itself overflows: stated limit of the code, outside the property's quantifier)",
        "globals / function objects enter through two ghosts (a global of that name exists; the index get_function_object_int returns)",
        "std::find_if over the scope's vector is an assumed contract (first index whose key equals the name, else size())",
    ]
    kb.unverified += ["Id_AST_Node / Fun_Call nodes storing and passing the hint word (atomics), call_member's use of get_function",
                      "add_object / add_get_object: that declarations go to the innermost scope",
                      "the search path beyond 3 scopes x 3 entries (bounded stand-in)",
                      "get_function / get_function_object_int bodies beyond QuickFlatMap::find(s, hint)"]
    return kb


def function_kernel(kb, dk, C):
    from common import throw_rule
    thr = throw_rule({"range_error": "K_range_error"}, DK)
    for cname, anchor in (("get_function", "std::pair<size_t, std::shared_ptr<std::vector<Proxy_Function>>> get_function(std::string_view t_name, const size_t t_hint) const"),
                          ("get_function_object_int", "std::pair<size_t, Boxed_Value> get_function_object_int(std::string_view t_name, const size_t t_hint) const")):
        sl = dk.slice_function(anchor)
        r = Rules(cname)
        r.add("R0.lock", r"\bchaiscript::detail::threading::shared_lock<chaiscript::detail::threading::shared_mutex> l\(m_mutex\);", "/* R0: lock */")
        r.add("R9.funs", r"\bconst auto &funs = get_(?:boxed_)?functions_int\(\);", "/* R9: the function table is (keys, n) */", min_fire=1)
        r.add("R9.find_hint", r"if \(const auto itr = funs\.find\(t_name, t_hint\); itr != funs\.end\(\)\)",
              "const size_t itr = QuickFlatMap_find_hint(keys, n, t_name, t_hint); if (itr != n)")
        r.add("R9.find", r"if \(const auto itr = funs\.find\(t_name\); itr != funs\.end\(\)\)",
              "const size_t itr = qfm_find_if(keys, n, t_name); if (itr != n)")
        r.add("R9.ret_found", r"\breturn std::make_pair\(std::distance\(funs\.begin\(\), itr\), itr->second\);", "return vfres(itr, itr);")
        r.add("R9.ret_next", r"\breturn std::make_pair\((\w+), std::next\(funs\.begin\(\), static_cast<std::ptrdiff_t>\((\w+)\)\)->second\);", r"return vfres(\1, \2);")
        r.add("R9.ret_none", r"\breturn std::make_pair\(size_t\(0\), std::make_shared<std::vector<Proxy_Function>>\(\)\);", "return vfres(0, NOTFOUND);")
        r.add("R9.fsize", r"\bfuns\.size\(\)", "n")
        r.extend(base_rules())

        def pre(b, cname=cname):
            b2, k = thr(b, cname)
            return b2
        c = C(cname)
        kb.emit_function("VFRes %s(const int *keys, size_t n, int t_name, const size_t t_hint)" % cname, sl, r, c.fn, c.loops, cname, pre=pre)
        kb.add('void h_%s(void) { const int *k; size_t n; int s; size_t h; %s(k, n, s, h); VERIF_CANARY("%s returns normally"); }' % (cname, cname, cname))
        kb.targets.append(Target(cname, "h_" + cname, replace=["QuickFlatMap_find_hint", "qfm_find_if"], objbits=8))


def _loopc(c, sl):
    n = len(chai2c.find_loops(chai2c.eval_preproc(sl.body, {"__GNUC__"})))
    return {k + 1: [] for k in range(n)}


def find_kernel(kb, qf, C):
    st = qf.slice_block("struct QuickFlatMap")
    sl = qf.slice_function("auto find(const Lookup &s, const std::size_t t_hint) const noexcept", after=st.ob)
    r = Rules("qfm")
    r.add("R9.size", r"\bdata\.size\(\)", "n", min_fire=1)
    r.add("R9.cmp", r"\bcomparator\(data\[t_hint\]\.first, s\)", "(keys[t_hint] == s)")
    r.add("R9.begin", r"\bconst auto begin = std::cbegin\(data\);", "const size_t begin = 0;")
    r.add("R9.next", r"\breturn std::next\(begin, static_cast<[^;]*>\(t_hint\)\);", "return begin + t_hint;")
    r.add("R4.find", r"\breturn find\(s\);", "return qfm_find_if(keys, n, s);", min_fire=1)
    r.extend(base_rules())
    c = C("qfm_find_if")
    kb.emit_stub("size_t qfm_find_if(const int *keys, size_t n, int s)", c.fn, "qfm_find_if")
    kb.functions.append("qfm_find_if (assumed: std::find_if)")
    c = C("QuickFlatMap_find_hint")
    kb.emit_function("size_t QuickFlatMap_find_hint(const int *keys, size_t n, int s, const size_t t_hint)", sl, r, c.fn, c.loops, "QuickFlatMap_find_hint")
    kb.add('void h_QuickFlatMap_find_hint(void) { const int *k; size_t n; int s; size_t h; QuickFlatMap_find_hint(k, n, s, h); VERIF_CANARY("find returns normally"); }')
    kb.targets.append(Target("QuickFlatMap_find_hint", "h_QuickFlatMap_find_hint", replace=["qfm_find_if"], objbits=8))
