"""Kernel K12: where an AST node says it starts (property C20).
  File_Position / Parse_Location constructors   (chaiscript_common.hpp)
  the location computed by build_match          (chaiscript_parser.hpp: the lambda initialising `filepos`)
  the location computed by make_node            (chaiscript_parser.hpp)
A node built over child nodes starts where its FIRST child starts and ends at the cursor; a leaf built by
make_node starts at the coordinates captured before it was lexed; both carry the parser's file name."""
import re

from common import (KernelBuild, Target, Rules, ExtractionBreak, base_rules, load_contracts, chai2c)
import gate

CM = "include/chaiscript/language/chaiscript_common.hpp"
PH = "include/chaiscript/language/chaiscript_parser.hpp"

HEADER = r'''
#include "verif_stl.h"
int verif_thrown;
typedef struct File_Position { int line; int column; } File_Position;
typedef struct Parse_Location { File_Position start; File_Position end; int filename; /* interned id of the shared file name */ } Parse_Location;
typedef struct Position { int line; int col; } Position; /* the cursor's coordinates (kernel K1 proves how they move) */
/* the match stack: the start coordinates of the node at index i are uninterpreted functions of i */
int __CPROVER_uninterpreted_node_start_line(size_t i);
int __CPROVER_uninterpreted_node_start_col(size_t i);
int __CPROVER_uninterpreted_node_end_line(size_t i);
int __CPROVER_uninterpreted_node_end_col(size_t i);
#ifdef VERIF_CBMC
#define NODE_END_LINE(i) __CPROVER_uninterpreted_node_end_line(i)
#define NODE_END_COL(i) __CPROVER_uninterpreted_node_end_col(i)
#else
#define NODE_END_LINE(i) 0
#define NODE_END_COL(i) 0
#endif
#ifdef VERIF_CBMC
#define NODE_START_LINE(i) __CPROVER_uninterpreted_node_start_line(i)
#define NODE_START_COL(i) __CPROVER_uninterpreted_node_start_col(i)
#else
#define NODE_START_LINE(i) 0
#define NODE_START_COL(i) 0
#endif
typedef struct Parser { int m_filename; Position m_position; size_t match_stack_size; } Parser;
void verif_parse_internal(Parser *self); /* parse_internal: re-seats cursor, file name and match stack */
/* eval_error::call_stack seen as (length, last node appended) */
typedef struct vcallstack { size_t n; int last; } vcallstack;
static inline void vcallstack_push_back(vcallstack *cs, int node) { cs->n = cs->n + 1; cs->last = node; }
void File_Position_ctor(File_Position *self, int t_file_line, int t_file_column);
void Parse_Location_ctor(Parse_Location *self, int t_fname, const int t_start_line, const int t_start_col, const int t_end_line, const int t_end_col);
static inline Parse_Location verif_make_location(int fname, int sl, int sc, int el, int ec) { Parse_Location l; Parse_Location_ctor(&l, fname, sl, sc, el, ec); return l; }
'''


def build(prop, tier="quick"):
    kb = KernelBuild("locations", prop)
    contracts = load_contracts("K12_locations.contracts")
    kb.add(HEADER)
    cm = chai2c.Header(CM)
    ph = chai2c.Header(PH)

    def C(name):
        return chai2c.contracts_for(contracts, name, prop)

    def H(cname, decl, call, replace=()):
        kb.add("void h_%s(void) { %s %s; VERIF_CANARY(\"%s returns normally\"); }" % (cname, decl, call, cname))
        kb.targets.append(Target(cname, "h_" + cname, replace=list(replace), objbits=8))

    # --- constructors (initializer lists -> assignments, R9)
    fps = cm.slice_block("struct File_Position")
    sl = cm.slice_function("constexpr File_Position(int t_file_line, int t_file_column) noexcept", after=fps.ob)
    if sl.body.strip():
        raise ExtractionBreak("File_Position constructor body is no longer empty")
    init = gate.init_list_to_assignments(sl.sig_tail)
    c = C("File_Position_ctor")
    kb.emit_function("void File_Position_ctor(File_Position *self, int t_file_line, int t_file_column)", sl, base_rules(), c.fn, c.loops, "File_Position_ctor", pre=lambda b: init)
    H("File_Position_ctor", "File_Position *p; int a, b;", "File_Position_ctor(p, a, b)")
    pls = cm.slice_block("struct Parse_Location")
    sl = cm.slice_function("Parse_Location(std::shared_ptr<std::string> t_fname,", after=pls.ob)
    if sl.body.strip():
        raise ExtractionBreak("Parse_Location constructor body is no longer empty")
    init = gate.init_list_to_assignments(sl.sig_tail)
    init = re.sub(r"self->(start|end) = ([^;]+);", r"File_Position_ctor(&self->\1, \2);", init)
    init = init.replace("std::move(t_fname)", "t_fname")
    c = C("Parse_Location_ctor")
    kb.emit_function("void Parse_Location_ctor(Parse_Location *self, int t_fname, const int t_start_line, const int t_start_col, const int t_end_line, const int t_end_col)",
                     sl, base_rules(), c.fn, c.loops, "Parse_Location_ctor", pre=lambda b: init)
    H("Parse_Location_ctor", "Parse_Location *p; int f, a, b, c, d;", "Parse_Location_ctor(p, f, a, b, c, d)")
    # the std::string overload must build the same location
    sl2 = cm.slice_function("Parse_Location(std::string t_fname = \"\", const int t_start_line = 0, const int t_start_col = 0, const int t_end_line = 0, const int t_end_col = 0)", after=pls.ob)
    a = " ".join(gate.init_list_to_assignments(sl2.sig_tail).replace("std::make_shared<std::string>(std::move(t_fname))", "t_fname").split())
    b = " ".join(gate.init_list_to_assignments(sl.sig_tail).replace("std::move(t_fname)", "t_fname").split())
    kb.static_facts.append(("both Parse_Location constructors initialise start / end / filename from the same arguments", a == b, "%s | %s" % (a, b)))

    # --- build_match: the lambda that computes the new node's location
    bm = ph.slice_function("void build_match(size_t t_match_start, std::string t_text = \"\")")
    mm = re.search(r"Parse_Location filepos = \[&\]\(\) -> Parse_Location \{", bm.body)
    if not mm:
        raise ExtractionBreak("build_match: `Parse_Location filepos = [&]() -> Parse_Location {` not found")
    base = bm.ob + 1
    ob = base + mm.end() - 1
    cb = chai2c.match_brace(ph.masked, ob)
    lsl = chai2c.Slice(ph, "build_match: location lambda", base + mm.start(), ob, cb)
    r = Rules("build_match")
    r.add("R9.stack_size", r"\bm_match_stack\.size\(\)", "self->match_stack_size", min_fire=1)
    r.add("R9.node_line", r"\bm_match_stack\[([^\[\]]+)\]->location\.start\.line\b", r"NODE_START_LINE(\1)")
    r.add("R9.node_col", r"\bm_match_stack\[([^\[\]]+)\]->location\.start\.column\b", r"NODE_START_COL(\1)")
    r.add("R9.node_eline", r"\bm_match_stack\[([^\[\]]+)\]->location\.end\.line\b", r"NODE_END_LINE(\1)")
    r.add("R9.node_ecol", r"\bm_match_stack\[([^\[\]]+)\]->location\.end\.column\b", r"NODE_END_COL(\1)")
    r.add("R9.node_back_line", r"\bm_match_stack\.back\(\)->location\.start\.line\b", "NODE_START_LINE(self->match_stack_size - 1)")
    r.add("R9.node_back_col", r"\bm_match_stack\.back\(\)->location\.start\.column\b", "NODE_START_COL(self->match_stack_size - 1)")
    r.add("R9.ploc", r"\breturn Parse_Location\(", "return verif_make_location(", min_fire=2)
    r.add("R1.members", r"(?<![\w.>])(m_filename|m_position)\b", r"self->\1", min_fire=2)
    r.add("R9.deep", r"\bis_deep = true;", "*is_deep = true;")
    r.extend(base_rules())
    c = C("build_match_location")
    kb.emit_function("Parse_Location build_match_location(const Parser *self, size_t t_match_start, bool *is_deep)", lsl, r, c.fn, c.loops, "build_match_location")
    H("build_match_location", "const Parser *p; size_t s; bool *d;", "build_match_location(p, s, d)")

    # --- make_node: Parse_Location(m_filename, t_prev_line, t_prev_col, m_position.line, m_position.col)
    mn = ph.slice_function("make_node(std::string_view t_match, const int t_prev_line, const int t_prev_col, Param &&...param)")
    mm = re.search(r"\bParse_Location\(([^;]*?)\),\s*std::forward<Param>\(param\)\.\.\.\);", mn.body, re.S)
    if not mm:
        raise ExtractionBreak("make_node: Parse_Location(...) argument not found")
    expr = "return verif_make_location(%s);" % " ".join(mm.group(1).split())
    msl = chai2c.Slice(ph, "make_node: location argument", mn.ob + 1 + mm.start(), mn.ob + 1 + mm.start(), mn.ob + 1 + mm.end())
    msl.body = expr
    r = Rules("make_node")
    r.add("R1.members", r"(?<![\w.>])(m_filename|m_position)\b", r"self->\1", min_fire=2)
    r.extend(base_rules())
    c = C("make_node_location")
    kb.emit_function("Parse_Location make_node_location(const Parser *self, const int t_prev_line, const int t_prev_col)", msl, r, c.fn, c.loops, "make_node_location")
    H("make_node_location", "const Parser *p; int a, b;", "make_node_location(p, a, b)")
    # --- parse_instr_eval ("${...}" inside a string): the nested parse must not leak its file name / cursor / match stack
    c = C("verif_parse_internal")
    kb.emit_stub("void verif_parse_internal(Parser *self)", c.fn, "verif_parse_internal")
    kb.functions.append("verif_parse_internal (assumed: parse_internal re-seats m_position, m_filename and the match stack arbitrarily)")
    pie = ph.slice_function("eval::AST_Node_Impl_Ptr<Tracer> parse_instr_eval(const std::string &t_input)")
    r = Rules("parse_instr_eval")
    r.add("R8.pos", r"\bauto last_position = m_position;", "const Position last_position = self->m_position;")
    r.add("R8.fname", r"\bauto last_filename = m_filename;", "const int last_filename = self->m_filename;")
    r.add("R8.stack", r"\bauto last_match_stack = std::exchange\(m_match_stack, decltype\(m_match_stack\)\{\}\);",
          "const size_t last_match_stack = self->match_stack_size; self->match_stack_size = 0;")
    r.add("R4.pi", r"\bauto retval = parse_internal\(t_input, \"instr eval\"\);", "verif_parse_internal(self);", min_fire=1)
    r.add("R9.rpos", r"\bm_position = std::move\(last_position\);", "self->m_position = last_position;")
    r.add("R9.rfname", r"\bm_filename = std::move\(last_filename\);", "self->m_filename = last_filename;")
    r.add("R9.rstack", r"\bm_match_stack = std::move\(last_match_stack\);", "self->match_stack_size = last_match_stack;")
    r.add("R9.ret", r"\breturn eval::AST_Node_Impl_Ptr<Tracer>\(dynamic_cast<eval::AST_Node_Impl<Tracer> \*>\(retval\.release\(\)\)\);", "return;", min_fire=1)
    r.extend(base_rules())
    c = C("parse_instr_eval")
    kb.emit_function("void Parser_parse_instr_eval(Parser *self)", pie, r, c.fn, c.loops, "Parser_parse_instr_eval")
    H("Parser_parse_instr_eval", "Parser *p;", "Parser_parse_instr_eval(p)", replace=["verif_parse_internal"])

    # --- AST_Node_Impl::eval: what the handler does while an eval_error unwinds through a node
    ev = chai2c.Header("include/chaiscript/language/chaiscript_eval.hpp")
    ist = ev.slice_block("struct AST_Node_Impl : AST_Node")
    es = ev.slice_function("Boxed_Value eval(const chaiscript::detail::Dispatch_State &t_e) const final", after=ist.ob)
    hm = re.search(r"\bcatch \(exception::eval_error &ee\)\s*\{", es.body)
    if not hm:
        raise ExtractionBreak("AST_Node_Impl::eval: `catch (exception::eval_error &ee)` not found")
    hob = es.ob + 1 + hm.end() - 1
    hcb = chai2c.match_brace(ev.masked, hob)
    hsl = chai2c.Slice(ev, "AST_Node_Impl::eval: eval_error handler", es.ob + 1 + hm.start(), hob, hcb)
    for name, val in re.findall(r"static constexpr (?:std::)?size_t (\w+) = (\d+);", chai2c.strip_comments(ist.body)):
        kb.add("#define %s %s /* static constexpr member of AST_Node_Impl */" % (name, val))
    r = Rules("eval_handler")
    r.add("R9.push", r"\bee\.call_stack\.push_back\(\*this\);", "vcallstack_push_back(cs, self);")
    r.add("R9.size", r"\bee\.call_stack\.size\(\)", "cs->n")
    r.add("R5.rethrow", r"\bthrow;", "return; /* rethrow: the error goes on to the enclosing node */", min_fire=1)
    r.extend(base_rules())
    c = C("AST_Node_Impl_eval_handler")
    kb.emit_function("void AST_Node_Impl_eval_handler(vcallstack *cs, int self)", hsl, r, c.fn, c.loops, "AST_Node_Impl_eval_handler")
    H("AST_Node_Impl_eval_handler", "vcallstack *c; int n;", "AST_Node_Impl_eval_handler(c, n)")
    kb.static_facts.append(rebuild_fact())
    kb.assumptions += ["the shared file-name string is an interned id; the start coordinates of the nodes on the match stack are uninterpreted functions of their index",
                       "the cursor's own line / column bookkeeping is kernel K1 (step and undo lemmas)"]
    kb.unverified += ["which Position a grammar rule captures as `start` before it calls make_node (per-rule, ~50 functions)",
                      "optimizer passes that rebuild nodes and choose a location for them",
                      "that the handler of AST_Node_Impl::eval is reached for every node the error passes (C++ exception semantics, A2-like)"]
    return kb


def rebuild_fact():
    """supporting static fact: when an optimizer pass rebuilds a node it gives the new node the location of the node whose
    text (and children) it takes - `make_unique<...>(X->text, X->location, ...)` - and a folded constant the location of the
    node it replaces."""
    op = chai2c.Header("include/chaiscript/language/chaiscript_optimizer.hpp")
    txt = chai2c.strip_comments(op.text)
    m = chai2c._mask(txt)
    bad, unknown, n = [], [], 0
    for mm in re.finditer(r"\bmake_unique<[^;()]*>\(", m):
        o = mm.end() - 1
        cp = chai2c.match_brace(m, o, "(", ")")
        args = " ".join(txt[o + 1:cp].split())
        line = txt.count("\n", 0, mm.start()) + 1
        a = re.match(r"(\w+)(?:->|\.)text, (\w+)(?:->|\.)location\b", args)
        b = re.match(r"std::move\(match\), (\w+)(?:->|\.)location\b", args)
        if a:
            n += 1
            if a.group(1) != a.group(2):
                bad.append("line %d: text of `%s` with the location of `%s`" % (line, a.group(1), a.group(2)))
        elif b:
            n += 1
            if b.group(1) != "node":
                bad.append("line %d: folded constant with the location of `%s`" % (line, b.group(1)))
        elif "location" in args:
            unknown.append("line %d: %s" % (line, args[:100]))
    return ("optimizer_passes_rebuild_a_node_with_the_location_of_the_node_they_take_the_text_from", False if bad else (None if unknown else True),
            "; ".join(bad + unknown) or "%d rebuild sites" % n)
