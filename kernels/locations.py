"""Kernel K12: where an AST node says it starts (property C20).
  File_Position / Parse_Location constructors   (chaiscript_common.hpp)
  the location computed by build_match          (chaiscript_parser.hpp: the lambda initialising `filepos`)
  the location computed by make_node            (chaiscript_parser.hpp)
A node built over child nodes starts where its FIRST child starts and ends at the cursor; a leaf built by
make_node starts at the coordinates captured before it was lexed; both carry the parser's file name."""
import re

from common import (KernelBuild, Target, Rules, ExtractionBreak, base_rules, load_contracts, chai2c)
import gate

CM = "include/chaiscript/language/chaiscript_common.hpp"
PH = "include/chaiscript/language/chaiscript_parser.hpp"

HEADER = r'''
#include "verif_stl.h"
int verif_thrown;
typedef struct File_Position { int line; int column; } File_Position;
typedef struct Parse_Location { File_Position start; File_Position end; int filename; /* interned id of the shared file name */ } Parse_Location;
typedef struct Position { int line; int col; } Position; /* the cursor's coordinates (kernel K1 proves how they move) */
/* the match stack: the start coordinates of the node at index i are uninterpreted functions of i */
int __CPROVER_uninterpreted_node_start_line(size_t i);
int __CPROVER_uninterpreted_node_start_col(size_t i);
#ifdef VERIF_CBMC
#define NODE_START_LINE(i) __CPROVER_uninterpreted_node_start_line(i)
#define NODE_START_COL(i) __CPROVER_uninterpreted_node_start_col(i)
#else
#define NODE_START_LINE(i) 0
#define NODE_START_COL(i) 0
#endif
typedef struct Parser { int m_filename; Position m_position; size_t match_stack_size; } Parser;
void File_Position_ctor(File_Position *self, int t_file_line, int t_file_column);
void Parse_Location_ctor(Parse_Location *self, int t_fname, const int t_start_line, const int t_start_col, const int t_end_line, const int t_end_col);
static inline Parse_Location verif_make_location(int fname, int sl, int sc, int el, int ec) { Parse_Location l; Parse_Location_ctor(&l, fname, sl, sc, el, ec); return l; }
'''


def build(prop, tier="quick"):
    kb = KernelBuild("locations", prop)
    contracts = load_contracts("K12_locations.contracts")
    kb.add(HEADER)
    cm = chai2c.Header(CM)
    ph = chai2c.Header(PH)

    def C(name):
        return chai2c.contracts_for(contracts, name, prop)

    def H(cname, decl, call, replace=()):
        kb.add("void h_%s(void) { %s %s; VERIF_CANARY(\"%s returns normally\"); }" % (cname, decl, call, cname))
        kb.targets.append(Target(cname, "h_" + cname, replace=list(replace), objbits=8))

    # --- constructors (initializer lists -> assignments, R9)
    fps = cm.slice_block("struct File_Position")
    sl = cm.slice_function("constexpr File_Position(int t_file_line, int t_file_column) noexcept", after=fps.ob)
    if sl.body.strip():
        raise ExtractionBreak("File_Position constructor body is no longer empty")
    init = gate.init_list_to_assignments(sl.sig_tail)
    c = C("File_Position_ctor")
    kb.emit_function("void File_Position_ctor(File_Position *self, int t_file_line, int t_file_column)", sl, base_rules(), c.fn, c.loops, "File_Position_ctor", pre=lambda b: init)
    H("File_Position_ctor", "File_Position *p; int a, b;", "File_Position_ctor(p, a, b)")
    pls = cm.slice_block("struct Parse_Location")
    sl = cm.slice_function("Parse_Location(std::shared_ptr<std::string> t_fname,", after=pls.ob)
    if sl.body.strip():
        raise ExtractionBreak("Parse_Location constructor body is no longer empty")
    init = gate.init_list_to_assignments(sl.sig_tail)
    init = re.sub(r"self->(start|end) = ([^;]+);", r"File_Position_ctor(&self->\1, \2);", init)
    init = init.replace("std::move(t_fname)", "t_fname")
    c = C("Parse_Location_ctor")
    kb.emit_function("void Parse_Location_ctor(Parse_Location *self, int t_fname, const int t_start_line, const int t_start_col, const int t_end_line, const int t_end_col)",
                     sl, base_rules(), c.fn, c.loops, "Parse_Location_ctor", pre=lambda b: init)
    H("Parse_Location_ctor", "Parse_Location *p; int f, a, b, c, d;", "Parse_Location_ctor(p, f, a, b, c, d)")
    # the std::string overload must build the same location
    sl2 = cm.slice_function("Parse_Location(std::string t_fname = \"\", const int t_start_line = 0, const int t_start_col = 0, const int t_end_line = 0, const int t_end_col = 0)", after=pls.ob)
    a = " ".join(gate.init_list_to_assignments(sl2.sig_tail).replace("std::make_shared<std::string>(std::move(t_fname))", "t_fname").split())
    b = " ".join(gate.init_list_to_assignments(sl.sig_tail).replace("std::move(t_fname)", "t_fname").split())
    kb.static_facts.append(("both Parse_Location constructors initialise start / end / filename from the same arguments", a == b, "%s | %s" % (a, b)))

    # --- build_match: the lambda that computes the new node's location
    bm = ph.slice_function("void build_match(size_t t_match_start, std::string t_text = \"\")")
    mm = re.search(r"Parse_Location filepos = \[&\]\(\) -> Parse_Location \{", bm.body)
    if not mm:
        raise ExtractionBreak("build_match: `Parse_Location filepos = [&]() -> Parse_Location {` not found")
    base = bm.ob + 1
    ob = base + mm.end() - 1
    cb = chai2c.match_brace(ph.masked, ob)
    lsl = chai2c.Slice(ph, "build_match: location lambda", base + mm.start(), ob, cb)
    r = Rules("build_match")
    r.add("R9.stack_size", r"\bm_match_stack\.size\(\)", "self->match_stack_size", min_fire=1)
    r.add("R9.node_line", r"\bm_match_stack\[([^\[\]]+)\]->location\.start\.line\b", r"NODE_START_LINE(\1)")
    r.add("R9.node_col", r"\bm_match_stack\[([^\[\]]+)\]->location\.start\.column\b", r"NODE_START_COL(\1)")
    r.add("R9.node_back_line", r"\bm_match_stack\.back\(\)->location\.start\.line\b", "NODE_START_LINE(self->match_stack_size - 1)")
    r.add("R9.node_back_col", r"\bm_match_stack\.back\(\)->location\.start\.column\b", "NODE_START_COL(self->match_stack_size - 1)")
    r.add("R9.ploc", r"\breturn Parse_Location\(", "return verif_make_location(", min_fire=2)
    r.add("R1.members", r"(?<![\w.>])(m_filename|m_position)\b", r"self->\1", min_fire=2)
    r.add("R9.deep", r"\bis_deep = true;", "*is_deep = true;")
    r.extend(base_rules())
    c = C("build_match_location")
    kb.emit_function("Parse_Location build_match_location(const Parser *self, size_t t_match_start, bool *is_deep)", lsl, r, c.fn, c.loops, "build_match_location")
    H("build_match_location", "const Parser *p; size_t s; bool *d;", "build_match_location(p, s, d)")

    # --- make_node: Parse_Location(m_filename, t_prev_line, t_prev_col, m_position.line, m_position.col)
    mn = ph.slice_function("make_node(std::string_view t_match, const int t_prev_line, const int t_prev_col, Param &&...param)")
    mm = re.search(r"\bParse_Location\(([^;]*?)\),\s*std::forward<Param>\(param\)\.\.\.\);", mn.body, re.S)
    if not mm:
        raise ExtractionBreak("make_node: Parse_Location(...) argument not found")
    expr = "return verif_make_location(%s);" % " ".join(mm.group(1).split())
    msl = chai2c.Slice(ph, "make_node: location argument", mn.ob + 1 + mm.start(), mn.ob + 1 + mm.start(), mn.ob + 1 + mm.end())
    msl.body = expr
    r = Rules("make_node")
    r.add("R1.members", r"(?<![\w.>])(m_filename|m_position)\b", r"self->\1", min_fire=2)
    r.extend(base_rules())
    c = C("make_node_location")
    kb.emit_function("Parse_Location make_node_location(const Parser *self, const int t_prev_line, const int t_prev_col)", msl, r, c.fn, c.loops, "make_node_location")
    H("make_node_location", "const Parser *p; int a, b;", "make_node_location(p, a, b)")
    kb.assumptions += ["the shared file-name string is an interned id; the start coordinates of the nodes on the match stack are uninterpreted functions of their index",
                       "the cursor's own line / column bookkeeping is kernel K1 (step and undo lemmas)"]
    kb.unverified += ["which Position a grammar rule captures as `start` before it calls make_node (per-rule, ~50 functions)",
                      "optimizer passes that rebuild nodes and choose a location for them",
                      "the call stack appended while an eval_error unwinds (AST_Node_Impl::eval's catch block: exception semantics)"]
    return kb
