"""Kernel K10b: ChaiScript_Basic::use and ensure_minimum_path_vec (chaiscript_engine.hpp).
Property C19, second sentence: use(path) evaluates a file the first time it is named and is a no-op
afterwards, searching the configured use paths in order, and a failed nested include propagates its own error.

use() catches file_not_found_error inside its search loop and resumes: the try / catch is rewritten to a
status code and gotos (R9) - sound because the try block contains exactly ONE call that can throw it
(eval_file, a contract-only stub here); every other exception ends the path at a propagation site, where the
exceptional postcondition ("a file whose evaluation failed is not recorded as used") is asserted."""
import re

from common import (KernelBuild, Target, Rules, ExtractionBreak, base_rules, load_contracts, chai2c)

EN = "include/chaiscript/language/chaiscript_engine.hpp"

HEADER = r'''
#define VERIF_ALLOWED (KBIT(K_file_not_found_error) | KBIT(K_eval_error) | KBIT(K_other))
#include "verif_stl.h"
int verif_thrown;
/* file names are interned ids (A6).  APP(i) = m_use_paths[i] + t_filename; EXISTS(id): a file of that name can be opened;
 * USED0(id): the name was in m_used_files when use() was entered */
int __CPROVER_uninterpreted_app(size_t i);
_Bool __CPROVER_uninterpreted_exists(int id);
_Bool __CPROVER_uninterpreted_used0(int id);
#ifdef VERIF_CBMC
#define APP(i) __CPROVER_uninterpreted_app(i)
#define EXISTS(id) __CPROVER_uninterpreted_exists(id)
#define USED0(id) __CPROVER_uninterpreted_used0(id)
#else
#define APP(i) 0
#define EXISTS(id) 0
#define USED0(id) 0
#endif
/* std::set<std::string> m_used_files = its entry value plus what this call inserted (at most VSET_CAP insertions) */
#define VSET_CAP 2
typedef struct vset { size_t nins; int ins[VSET_CAP]; } vset;
static inline size_t vset_count(const vset *s, int id) { return (USED0(id) || (s->nins > 0 && s->ins[0] == id) || (s->nins > 1 && s->ins[1] == id)) ? 1 : 0; }
static inline _Bool vset_insert(vset *s, int id) { /* returns .second of std::set::insert: true if newly inserted */
  if (vset_count(s, id)) return 0;
  VERIF_STD_PRE(s->nins < VSET_CAP, "model bound: at most two insertions into m_used_files per call of use()");
  s->ins[s->nins] = id; s->nins = s->nins + 1; return 1; }
typedef struct Engine { size_t npaths; vset m_used_files; } Engine;
/* the used-file set is keyed by the resolved name; the requested spelling t_filename is a different name (id -1) */
#define VERIF_NAME_appendedpath appendedpath
#define VERIF_NAME_t_filename (-1)
/* ghosts written by the eval_file stub and the return rule */
size_t verif_evaluations; int verif_evaluated_id; size_t verif_ret_index; size_t verif_k; int verif_old_path_k;
int verif_eval_file(Engine *self, int id, int *efile);
/* an exception leaves use(): the property's exceptional postcondition is checked here, then the path ends */
#define VERIF_PROPAGATE(kind, what) do { \
    __CPROVER_assert(self->m_used_files.nins == 0, "[P] a use() that ends in an exception records no file as used (" what ")"); \
    VERIF_THROW(kind, what); } while (0)
/* std::vector<std::string> of path ids */
typedef struct vpaths { size_t n; int *ids; } vpaths;
void verif_permute(vpaths *p);
void verif_shrink(vpaths *p);
#define EMPTY_PATH_ID 0
'''


def trycatch_fnf(body, ctx):
    """R9: try { ... } catch (const exception::file_not_found_error &e) { ... } -> labelled blocks"""
    m = chai2c._mask(body)
    tries = list(re.finditer(r"\btry\s*\{", m))
    if len(tries) != 1:
        raise ExtractionBreak("%s: expected exactly one try block" % ctx)
    t = tries[0]
    ob = t.end() - 1
    cb = chai2c.match_brace(m, ob)
    cm = re.match(r"\s*catch\s*\(const exception::file_not_found_error &e\)\s*\{", m[cb + 1:])
    if not cm:
        raise ExtractionBreak("%s: handler is not `catch (const exception::file_not_found_error &e)`" % ctx)
    cob = cb + 1 + cm.end() - 1
    ccb = chai2c.match_brace(m, cob)
    if re.match(r"\s*catch\b", m[ccb + 1:]):
        raise ExtractionBreak("%s: more than one handler" % ctx)
    tbody = body[ob + 1:cb]
    if tbody.count("VERIF_GOTO_CATCH") != 1:
        raise ExtractionBreak("%s: the try block must contain exactly one call of eval_file" % ctx)
    tbody = tbody.replace("VERIF_GOTO_CATCH", "goto verif_catch")
    return body[:t.start()] + "{" + tbody + " goto verif_end; } verif_catch: {" + body[cob + 1:ccb] + "} verif_end: ;" + body[ccb + 1:]


def build(prop, tier="quick"):
    kb = KernelBuild("use", prop)
    contracts = load_contracts("K10b_use.contracts")
    kb.add(HEADER)
    en = chai2c.Header(EN)

    def C(name):
        return chai2c.contracts_for(contracts, name, prop)

    for stub, sig in (("verif_eval_file", "int verif_eval_file(Engine *self, int id, int *efile)"), ("verif_permute", "void verif_permute(vpaths *p)"),
                      ("verif_shrink", "void verif_shrink(vpaths *p)")):
        c = C(stub)
        kb.emit_stub(sig, c.fn, stub)
    kb.functions.append("verif_eval_file (assumed: eval_file = load + evaluate; file_not_found_error names the missing file)")

    sl = en.slice_function("Boxed_Value use(const std::string &t_filename)")
    r = Rules("use")
    r.add("R9.rangefor", r"for \(const auto &path : m_use_paths\) \{", "for (size_t verif_i = 0; verif_i < self->npaths; ++verif_i) {", min_fire=1)
    r.add("R9.app", r"\bconst auto appendedpath = path \+ t_filename;", "const int appendedpath = APP(verif_i);", min_fire=1)
    r.add("R0.lock1", r"\bchaiscript::detail::threading::unique_lock<chaiscript::detail::threading::recursive_mutex> l\(m_use_mutex\);", "/* R0: lock */")
    r.add("R0.lock2", r"\bchaiscript::detail::threading::unique_lock<chaiscript::detail::threading::shared_mutex> l2\(m_mutex\);", "/* R0: lock */")
    r.add("R0.lock3", r"\bl2\.(?:un)?lock\(\);", "/* R0: lock */")
    r.add("R9.retdecl", r"\bBoxed_Value retval;", "int retval = 0;", min_fire=1)
    r.add("R9.count", r"\bm_used_files\.count\((appendedpath|t_filename)\)", r"vset_count(&self->m_used_files, VERIF_NAME_\1)")
    r.add("R9.insert2", r"\bm_used_files\.insert\((appendedpath|t_filename)\)\.second", r"vset_insert(&self->m_used_files, VERIF_NAME_\1)")
    r.add("R9.insert", r"\bm_used_files\.insert\((appendedpath|t_filename)\);", r"(void)vset_insert(&self->m_used_files, VERIF_NAME_\1);")
    r.add("R9.eval", r"\bretval = eval_file\(appendedpath\);",
          "{ const int verif_exc = verif_eval_file(self, appendedpath, &verif_efile); retval = 1; if (verif_exc == K_file_not_found_error) VERIF_GOTO_CATCH; "
          "if (verif_exc != K_none) VERIF_PROPAGATE(K_other, \"an error while evaluating the file\"); }", min_fire=1)
    r.add("R9.ret", r"\breturn retval;", "{ verif_ret_index = verif_i; return; }", min_fire=1)
    r.add("R9.efile", r"\be\.filename != appendedpath\b", "verif_efile != appendedpath")
    r.add("R9.rethrow", r"\bthrow;", "VERIF_PROPAGATE(K_file_not_found_error, \"a nested include failed\");")
    r.add("R5.final", r"\bthrow exception::file_not_found_error\(t_filename\);",
          "{ __CPROVER_assert(!verif_k_alive, \"[P] file_not_found_error only if no use path has the file (for every path k)\"); "
          "VERIF_PROPAGATE(K_file_not_found_error, \"failed to load by any name\"); }", min_fire=1)
    r.extend(base_rules())

    def post(b):
        return "int verif_efile = -1;\n" + trycatch_fnf(b, "use")
    c = C("ChaiScript_Basic_use")
    kb.emit_function("void ChaiScript_Basic_use(Engine *self)", sl, r, c.fn, c.loops, "ChaiScript_Basic_use", post=post, ghost=c.ghost)
    kb.add('void h_ChaiScript_Basic_use(void) { Engine *e; ChaiScript_Basic_use(e); VERIF_CANARY("use returns normally"); }')
    t = Target("ChaiScript_Basic_use", "h_ChaiScript_Basic_use", replace=["verif_eval_file"], objbits=8)
    t.expect_loops = True
    t.invariant_class = "P"
    kb.targets.append(t)

    # --- ensure_minimum_path_vec
    sl = en.slice_function("std::vector<std::string> ensure_minimum_path_vec(std::vector<std::string> paths)")
    r = Rules("minpath")
    r.add("R9.empty", r"\bpaths\.empty\(\)", "(paths->n == 0)", min_fire=1)
    r.add("R9.ret_default", r"\breturn \{\"\"\};", "{ VERIF_STD_PRE(paths->ids != NULL, \"ghost capacity of one\"); paths->n = 1; paths->ids[0] = EMPTY_PATH_ID; return; }", min_fire=1)
    r.add("R9.ret_paths", r"\breturn paths;", "return;", min_fire=1)
    # any std algorithm that reorders / rewrites the range, and erase: sound over-approximations
    r.add("R9.alg_mut", r"\bstd::(?:sort|stable_sort|reverse|shuffle|rotate|partition|stable_partition)\(paths\.begin\(\), paths\.end\(\)[^;]*\);", "verif_permute(paths);")
    r.add("R9.alg_erase", r"\bpaths\.erase\([^;]*\);", "verif_shrink(paths);")
    r.extend(base_rules())
    c = C("ensure_minimum_path_vec")
    kb.emit_function("void ensure_minimum_path_vec(vpaths *paths)", sl, r, c.fn, c.loops, "ensure_minimum_path_vec", ghost=c.ghost)
    kb.add('void h_ensure_minimum_path_vec(void) { vpaths *p; ensure_minimum_path_vec(p); VERIF_CANARY("returns normally"); }')
    rep = [x for x in ("verif_permute", "verif_shrink") if kb.rules_fired.get({"verif_permute": "R9.alg_mut", "verif_shrink": "R9.alg_erase"}[x], 0)]
    kb.targets.append(Target("ensure_minimum_path_vec", "h_ensure_minimum_path_vec", replace=rep, objbits=8))
    ctor = " ".join(chai2c.strip_comments(en.text).split())
    ok = "m_use_paths(ensure_minimum_path_vec(std::move(t_use_paths)))" in ctor
    kb.static_facts.append(("the constructor initialises m_use_paths with ensure_minimum_path_vec(t_use_paths) and nothing else", ok, EN))
    if tier == "thorough":
        import engine_probe
        rc, cases, err = engine_probe.run("c19")
        kb.static_facts.append(("native battery (thorough tier): probe_engine.cpp c19 scenarios on the real engine", rc == 0 and not cases, (err.strip() + " " + str(cases[:3]))[:400]))
    kb.assumptions += [
        "A6: file names are interned ids; APP(i) (use path i + name), EXISTS, USED0 are uninterpreted functions; files do not appear or vanish during one call",
        "verif_eval_file: assumed contract for eval_file (load_file + evaluation): a missing file raises file_not_found_error naming exactly that file; "
        "an existing file is evaluated once (ghost counter) and may succeed, fail with another error, or fail with a file_not_found_error naming ANOTHER file (a nested include)",
        "the evaluated file does not itself change m_used_files (nested use() calls are outside this kernel); locks are dropped",
        "the try / catch of use() is rewritten to a status code and gotos; at most two insertions into m_used_files per call (model bound, checked)",
    ]
    kb.unverified += ["internal_eval_file / eval_file's own search loop", "thread safety of m_used_files (C13)"]
    return kb
