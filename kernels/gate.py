"""Kernel K6: the type / const gate every value passes on its way from script to C++:
Type_Info (type_info.hpp), Boxed_Value::Data constructor and accessors (boxed_value.hpp),
throw_if_null / verify_type / verify_type_no_throw and the Cast_Helper_Inner<...>::cast
one-liners (boxed_cast_helper.hpp).  Properties C06 (typed entry) and C07 (const gate)."""
import re

from common import (nondet_bools, KernelBuild, Target, Rules, ExtractionBreak, base_rules, load_contracts, throw_rule,
                    chai2c)

TI = "include/chaiscript/dispatchkit/type_info.hpp"
BV = "include/chaiscript/dispatchkit/boxed_value.hpp"
CH = "include/chaiscript/dispatchkit/boxed_cast_helper.hpp"

KINDMAP = {"bad_any_cast": "K_bad_any_cast", "runtime_error": "K_runtime_error"}
# (the Equation guard raises eval_error: allowed kind added to VERIF_ALLOWED below)

HEADER = r'''
#define VERIF_ALLOWED (KBIT(K_bad_any_cast) | KBIT(K_runtime_error) | KBIT(K_eval_error) | KBIT(K_bad_boxed_cast))
#include "verif_prelude.h"
int verif_thrown;
/* A7: std::type_info is an opaque identity; operator== on type_info objects is identity of
 * the type, modelled as equality of an id */
typedef struct verif_type_info { int id; } verif_type_info;
static inline bool verif_ti_eq(const verif_type_info *a, const verif_type_info *b) { return a->id == b->id; }
typedef struct Type_Info { const verif_type_info *m_type_info; const verif_type_info *m_bare_type_info; unsigned int m_flags; } Type_Info;
/* Boxed_Value::Data without m_obj (Any) and m_attrs: ownership and attributes are outside this kernel */
typedef struct Data { Type_Info m_type_info; void *m_data_ptr; const void *m_const_data_ptr; bool m_is_ref; bool m_return_value; } Data;
/* std::shared_ptr<Data> m_data -> plain pointer (ownership dropped) */
typedef struct Boxed_Value { Data *m_data; } Boxed_Value;
typedef struct Result { int payload; } Result; /* the one type the cast helpers are instantiated at */
static const verif_type_info verif_typeid_Result = { 424242 };
#define TI_FRESH(t) (__CPROVER_is_fresh((t)->m_type_info, sizeof(verif_type_info)) && __CPROVER_is_fresh((t)->m_bare_type_info, sizeof(verif_type_info)))
#define IS_CONST_TI(t) ((((t)->m_flags) & 1u) != 0)
#define IS_UNDEF_TI(t) ((((t)->m_flags) & 32u) != 0)
/* data invariant of a box: a const box exposes no mutable pointer; a mutable pointer, when present, is the object */
#define DINV(d) ((IS_CONST_TI(&(d)->m_type_info) ==> (d)->m_data_ptr == NULL) && ((d)->m_data_ptr != NULL ==> (d)->m_data_ptr == (d)->m_const_data_ptr))
#define OB_REQ(ob) (__CPROVER_is_fresh(ob, sizeof(*(ob))) && __CPROVER_is_fresh((ob)->m_data, sizeof(Data)) && TI_FRESH(&(ob)->m_data->m_type_info) && DINV((ob)->m_data))
'''

FLAGS = ["is_const_flag", "is_reference_flag", "is_pointer_flag", "is_void_flag", "is_arithmetic_flag", "is_undef_flag"]


def init_list_to_assignments(sig_tail, drop=()):
    """R9: constructor initializer list `: a(x), b(y)` -> `self->a = x; self->b = y;`"""
    i = sig_tail.find(")")
    m = chai2c._mask(sig_tail)
    # find the ':' that starts the initializer list (after the parameter list's closing paren)
    depth = 0
    start = None
    for k, ch in enumerate(m):
        if ch == "(":
            depth += 1
        elif ch == ")":
            depth -= 1
            if depth == 0 and start is None:
                rest = m[k + 1:]
                mm = re.match(r"\s*(noexcept)?\s*:", rest)
                if not mm:
                    raise ExtractionBreak("constructor without initializer list")
                start = k + 1 + mm.end()
                break
    items = []
    depth = 0
    cur = ""
    for ch in sig_tail[start:]:
        if ch in "({":
            depth += 1
        elif ch in ")}":
            depth -= 1
        if ch == "," and depth == 0:
            items.append(cur)
            cur = ""
        else:
            cur += ch
    if cur.strip():
        items.append(cur)
    out = []
    for it in items:
        mm = re.match(r"\s*(\w+)\s*\((.*)\)\s*$", it, re.S)
        if not mm:
            raise ExtractionBreak("initializer not understood: %r" % it)
        if mm.group(1) in drop:
            continue
        out.append("self->%s = %s;" % (mm.group(1), " ".join(mm.group(2).split())))
    return "\n".join(out)


def ti_rules():
    r = base_rules()
    r.add("R9.tieq_a", r"\*ti\.(m_\w+) == \*(m_\w+)", r"verif_ti_eq(ti->\1, self->\2)")
    r.add("R9.tieq_b", r"\(\*(m_\w+)\) == ti\b", r"verif_ti_eq(self->\1, ti)")
    r.add("R2.ti", r"\bti\.(m_\w+)", r"ti->\1")
    r.add("R4.op_eq", r"\boperator==\(ti\)", "Type_Info_eq(self, ti)")
    r.add("R4.is_undef", r"(?<![\w.>])is_undef\(\)", "Type_Info_is_undef(self)")
    r.add("R1.field", r"(?<![\w.>])(m_type_info|m_bare_type_info|m_flags)\b", r"self->\1")
    return r


def ob_rules():
    r = base_rules()
    r.add("R4.gti_eq", r"\bob\.get_type_info\(\) == ti\b", "Type_Info_eq_ti(Boxed_Value_get_type_info(ob), ti)")
    r.add("R4.gti_bare", r"\bob\.get_type_info\(\)\.bare_equal_type_info\(ti\)", "Type_Info_bare_equal_type_info(Boxed_Value_get_type_info(ob), ti)")
    r.add("R4.is_const", r"\bob\.is_const\(\)", "Boxed_Value_is_const(ob)")
    r.add("R4.tin", r"\bthrow_if_null\(ptr\)", "throw_if_null(ptr)")
    return r


def literal_const_fact():
    """supporting static fact (scan of chaiscript_parser.hpp): the value of every literal is created const - buildInt and
    buildFloat return const_var(...) on every path, and every Constant node made by Num / Id / Quoted_String /
    Single_Quoted_String gets const_var(...), a value built by buildInt / buildFloat, or the `_` placeholder object."""
    ph = chai2c.Header("include/chaiscript/language/chaiscript_parser.hpp")
    bad, unknown, n = [], [], 0
    for anchor in ("static Boxed_Value buildFloat(std::string_view t_val)", "static Boxed_Value buildInt(const int base, std::string_view t_val, const bool prefixed)"):
        sl = ph.slice_function(anchor)
        for mm in re.finditer(r"\breturn\s+([^;]+);", chai2c._mask(sl.body)):
            n += 1
            e = sl.body[mm.start(1):mm.end(1)].strip()
            if not e.startswith("const_var("):
                (bad if re.match(r"(Boxed_Value|var)\(", e) else unknown).append("%s: return %s" % (sl.where(), e[:60]))
    txt = chai2c.strip_comments(ph.text)
    m = chai2c._mask(txt)
    for mm in re.finditer(r"\bmake_node<eval::Constant_AST_Node<Tracer>>\(", m):
        op = mm.end() - 1
        cp = chai2c.match_brace(m, op, "(", ")")
        args, depth, cur = [], 0, ""
        for ch in txt[op + 1:cp]:
            if ch in "(<[{":
                depth += 1
            elif ch in ")>]}":
                depth -= 1
            if ch == "," and depth == 0:
                args.append(cur)
                cur = ""
            else:
                cur += ch
        args.append(cur)
        last = " ".join(args[-1].split())
        n += 1
        if last.startswith("const_var(") or last == "std::move(bv)" or last == "Boxed_Value(std::make_shared<dispatch::Placeholder_Object>())":
            continue
        line = txt.count("\n", 0, mm.start()) + 1
        (bad if re.match(r"(Boxed_Value|var)\(", last) else unknown).append("line %d: %s" % (line, last[:60]))
    return ("every_literal_value_is_created_const", False if bad else (None if unknown or n < 10 else True),
            "; ".join(bad + unknown) or "%d literal construction sites" % n)


def build(prop, tier="quick"):
    kb = KernelBuild("gate", prop)
    contracts = load_contracts("K6_gate.contracts")
    kb.add(HEADER)
    ti = chai2c.Header(TI)
    bv = chai2c.Header(BV)
    ch = chai2c.Header(CH)
    thr = throw_rule(KINDMAP, CH)

    def C(name):
        return chai2c.contracts_for(contracts, name, prop)

    # flag constants
    vals = []
    for f in FLAGS:
        mm = re.search(r"static const int %s = (\d+);" % f, ti.text)
        if not mm:
            raise ExtractionBreak("Type_Info flag %s not found" % f)
        vals.append("%s = %s" % (f, mm.group(1)))
    kb.add("enum { " + ", ".join(vals) + " };")
    tic = ti.slice_block("class Type_Info")

    protos = []
    funcs = []

    def emit(hdr, anchor, csig, cname, rules, after=0, pre=None, post=None, unique=True):
        sl = hdr.slice_function(anchor, after=after, unique=unique)
        c = C(cname)
        kb.emit_function(csig, sl, rules, c.fn, c.loops, cname, pre=pre, post=post, ghost=c.ghost)
        return sl

    sigs = [
        "bool Type_Info_eq(const Type_Info *self, const Type_Info *ti)",
        "bool Type_Info_eq_ti(const Type_Info *self, const verif_type_info *ti)",
        "bool Type_Info_bare_equal(const Type_Info *self, const Type_Info *ti)",
        "bool Type_Info_bare_equal_type_info(const Type_Info *self, const verif_type_info *ti)",
        "bool Type_Info_is_undef(const Type_Info *self)",
        "const Type_Info *Boxed_Value_get_type_info(const Boxed_Value *self)",
        "bool Boxed_Value_is_const(const Boxed_Value *self)",
        "void *throw_if_null(void *t)", "const void *throw_if_null_c(const void *t)",
        "const Result *cast_const_ref(const Boxed_Value *ob)", "Result *cast_ref(const Boxed_Value *ob)",
    ]
    kb.add("\n".join(s + ";" for s in sigs))

    # --- Type_Info
    sl = ti.slice_function("constexpr Type_Info(const bool t_is_const,", after=tic.ob)
    r = base_rules()
    r.add("R1.flag", r"(?<![\w.>])(is_\w+_flag)\b", r"\1")
    body_init = init_list_to_assignments(sl.sig_tail)
    c = C("Type_Info_ctor")
    kb.emit_function("void Type_Info_ctor(Type_Info *self, const bool t_is_const, const bool t_is_reference, const bool t_is_pointer, "
                     "const bool t_is_void, const bool t_is_arithmetic, const verif_type_info *t_ti, const verif_type_info *t_bare_ti)",
                     sl, r, c.fn, c.loops, "Type_Info_ctor", pre=lambda b: base_rules().apply(body_init) + b)
    emit(ti, "constexpr bool operator==(const Type_Info &ti) const noexcept", sigs[0], "Type_Info_eq", ti_rules(), after=tic.ob)
    emit(ti, "constexpr bool operator==(const std::type_info &ti) const noexcept", sigs[1], "Type_Info_eq_ti", ti_rules(), after=tic.ob)
    emit(ti, "constexpr bool bare_equal(const Type_Info &ti) const noexcept", sigs[2], "Type_Info_bare_equal", ti_rules(), after=tic.ob)
    emit(ti, "constexpr bool bare_equal_type_info(const std::type_info &ti) const noexcept", sigs[3], "Type_Info_bare_equal_type_info",
         ti_rules(), after=tic.ob)
    for g in ("is_const", "is_reference", "is_void", "is_arithmetic", "is_undef", "is_pointer"):
        c = C("Type_Info_flag")
        sl = ti.slice_function("constexpr bool %s() const noexcept" % g, after=tic.ob)
        fnc = [(cl, t.replace("{FLAG}", g + "_flag")) for cl, t in c.fn]
        kb.emit_function("bool Type_Info_%s(const Type_Info *self)" % g, sl, ti_rules(), fnc, {}, "Type_Info_" + g)

    # --- Boxed_Value::Data constructor
    dsl = bv.slice_block("struct Data")
    sl = bv.slice_function("Data(const Type_Info &ti, chaiscript::detail::Any to, bool is_ref, const void *t_void_ptr, bool t_return_value)",
                           after=dsl.ob)
    if sl.body.strip():
        raise ExtractionBreak("Data constructor body is no longer empty")
    init = init_list_to_assignments(sl.sig_tail, drop=("m_obj",))
    r = base_rules()
    r.add("R2.ti_const", r"\bti\.is_const\(\)", "Type_Info_is_const(ti)", min_fire=1)
    r.add("R2.ti_copy", r"self->m_type_info = ti;", "self->m_type_info = *ti;", min_fire=1)
    r.add("R6.const_cast_void", r"\(void \*\)\(t_void_ptr\)", "((void *)(t_void_ptr))")
    c = C("Data_ctor")
    kb.emit_function("void Data_ctor(Data *self, const Type_Info *ti, bool is_ref, const void *t_void_ptr, bool t_return_value)", sl, r,
                     c.fn, c.loops, "Data_ctor", pre=lambda b: init)

    # --- Boxed_Value accessors
    r0 = base_rules()
    r0.add("R3.ti_call", r"\bm_data->m_type_info\.is_(\w+)\(\)", r"Type_Info_is_\1(&self->m_data->m_type_info)")
    r0.add("R1.m_data", r"(?<![\w.>&])m_data->", "self->m_data->")

    def refret(b):
        return re.sub(r"\breturn\s+([^;]+);", r"return &(\1);", b)

    emit(bv, "const Type_Info &get_type_info() const noexcept", sigs[5], "Boxed_Value_get_type_info", r0, post=refret)
    emit(bv, "bool is_const() const noexcept", sigs[6], "Boxed_Value_is_const", r0, after=dsl.cb)
    emit(bv, "void *get_ptr() const noexcept", "void *Boxed_Value_get_ptr(const Boxed_Value *self)", "Boxed_Value_get_ptr", r0)
    emit(bv, "const void *get_const_ptr() const noexcept", "const void *Boxed_Value_get_const_ptr(const Boxed_Value *self)",
         "Boxed_Value_get_const_ptr", r0)
    emit(bv, "bool is_return_value() const noexcept", "bool Boxed_Value_is_return_value(const Boxed_Value *self)",
         "Boxed_Value_is_return_value", r0)

    # --- throw_if_null, verify_type*
    def pre_thr(name):
        def f(b):
            b2, n = thr(b, name)
            if n != 1:
                raise ExtractionBreak("%s: expected exactly one throw" % name)
            return b2
        return f

    tin = ch.slice_function("constexpr T *throw_if_null(T *t)")
    for cname, csig in (("throw_if_null", sigs[7]), ("throw_if_null_c", sigs[8])):
        c = C("throw_if_null")
        kb.emit_function(csig, tin, base_rules(), c.fn, c.loops, cname, pre=pre_thr(cname))

    def vt(anchor, cname, csig, tinname):
        rr = ob_rules()
        rr.add("R4.tin_variant", r"\bthrow_if_null\(", tinname + "(")
        sl = ch.slice_function(anchor)
        c = C(cname)
        kb.emit_function(csig, sl, rr, c.fn, c.loops, cname, pre=pre_thr(cname))

    vt("static const T *verify_type_no_throw(const Boxed_Value &ob, const std::type_info &ti, const T *ptr)", "verify_type_no_throw_c",
       "const void *verify_type_no_throw_c(const Boxed_Value *ob, const verif_type_info *ti, const void *ptr)", "throw_if_null_c")
    vt("static T *verify_type_no_throw(const Boxed_Value &ob, const std::type_info &ti, T *ptr)", "verify_type_no_throw_m",
       "void *verify_type_no_throw_m(const Boxed_Value *ob, const verif_type_info *ti, void *ptr)", "throw_if_null")
    vt("static const T *verify_type(const Boxed_Value &ob, const std::type_info &ti, const T *ptr)", "verify_type_c",
       "const void *verify_type_c(const Boxed_Value *ob, const verif_type_info *ti, const void *ptr)", "throw_if_null_c")
    vt("static T *verify_type(const Boxed_Value &ob, const std::type_info &ti, T *ptr)", "verify_type_m",
       "void *verify_type_m(const Boxed_Value *ob, const verif_type_info *ti, void *ptr)", "throw_if_null")

    # --- Cast_Helper_Inner<...>::cast
    def cast(struct_anchor, fn_anchor, cname, csig, is_ref):
        st = ch.slice_block(struct_anchor)
        sl = ch.slice_function(fn_anchor, after=st.ob, unique=False)
        if sl.cb > st.cb:
            raise ExtractionBreak("%s: cast not inside %s" % (cname, struct_anchor))
        rr = base_rules()
        rr.add("R4.vt_c", r"\bverify_type\(ob, typeid\(Result\), ob\.get_const_ptr\(\)\)", "verify_type_c(ob, &verif_typeid_Result, Boxed_Value_get_const_ptr(ob))")
        rr.add("R4.vt_m", r"\bverify_type\(ob, typeid\(Result\), ob\.get_ptr\(\)\)", "verify_type_m(ob, &verif_typeid_Result, Boxed_Value_get_ptr(ob))")
        rr.add("R4.vtn_c", r"\bverify_type_no_throw\(ob, typeid\(Result\), ob\.get_const_ptr\(\)\)", "verify_type_no_throw_c(ob, &verif_typeid_Result, Boxed_Value_get_const_ptr(ob))")
        rr.add("R4.vtn_m", r"\bverify_type_no_throw\(ob, typeid\(Result\), ob\.get_ptr\(\)\)", "verify_type_no_throw_m(ob, &verif_typeid_Result, Boxed_Value_get_ptr(ob))")
        # a helper implemented through another helper (sibling specialisation), and std::move / const_cast on the
        # referenced object: references are pointers here, so std::move(x) is x and const_cast<Result &>(x) is (Result *)x
        rr.add("R4.sib_cref", r"\bCast_Helper_Inner<const Result &>::cast\(ob, NULL\)", "(*cast_const_ref(ob))")
        rr.add("R4.sib_ref", r"\bCast_Helper_Inner<Result &>::cast\(ob, NULL\)", "(*cast_ref(ob))")
        rr.add("R6.const_cast_ref", r"\bconst_cast<Result &>\(", "*(Result *)&(")
        rr.add("R6.move", r"\bstd::move\(", "(")
        c = C(cname)
        before = dict(kb.rules_fired)
        kb.emit_function(csig, sl, rr, c.fn, c.loops, cname, post=refret if is_ref else None)
        if sum(kb.rules_fired.get(k, 0) - before.get(k, 0) for k in ("R4.vt_c", "R4.vt_m", "R4.vtn_c", "R4.vtn_m", "R4.sib_cref", "R4.sib_ref")) < 1:
            raise ExtractionBreak("%s: verify call not recognised" % cname)

    cast("struct Cast_Helper_Inner<const Result *>", "static const Result *cast(const Boxed_Value &ob, const Type_Conversions_State *)",
         "cast_const_ptr", "const Result *cast_const_ptr(const Boxed_Value *ob)", False)
    cast("struct Cast_Helper_Inner<Result *>", "static Result *cast(const Boxed_Value &ob, const Type_Conversions_State *)",
         "cast_ptr", "Result *cast_ptr(const Boxed_Value *ob)", False)
    cast("struct Cast_Helper_Inner<const Result &>", "static const Result &cast(const Boxed_Value &ob, const Type_Conversions_State *)",
         "cast_const_ref", "const Result *cast_const_ref(const Boxed_Value *ob)", True)
    cast("struct Cast_Helper_Inner<Result &>", "static Result &cast(const Boxed_Value &ob, const Type_Conversions_State *)",
         "cast_ref", "Result *cast_ref(const Boxed_Value *ob)", True)
    cast("struct Cast_Helper_Inner<Result &&>", "static Result &&cast(const Boxed_Value &ob, const Type_Conversions_State *)",
         "cast_rref", "Result *cast_rref(const Boxed_Value *ob)", True)

    # --- Boxed_Value::Data::operator= (Boxed_Value::assign: `var &r = c`, `r := c`, assignment of return values)
    sl = bv.slice_function("Data &operator=(const Data &rhs)", after=dsl.ob)
    r = base_rules()
    r.add("R9.any", r"\bm_obj = rhs\.m_obj;", "/* R9: m_obj (Any) dropped from Data */")
    r.add("R9.attrs", r"if \(rhs\.m_attrs\) \{[^}]*\}", "/* R9: attribute map dropped from Data */")
    r.add("R1.fields", r"(?<![\w.>])(m_type_info|m_is_ref|m_data_ptr|m_const_data_ptr|m_return_value)\b(?!\()", r"self->\1")
    r.add("R2.rhs", r"\brhs\.(m_\w+)", r"rhs->\1")
    r.add("R3.ti_const", r"\bself->m_type_info\.is_const\(\)", "Type_Info_is_const(&self->m_type_info)")
    r.add("R3.ti_const_rhs", r"\brhs->m_type_info\.is_const\(\)", "Type_Info_is_const(&rhs->m_type_info)")
    r.add("R1.retthis", r"\breturn \*this;", "return;")
    c = C("Data_assign")
    kb.emit_function("void Data_assign(Data *self, const Data *rhs)", sl, r, c.fn, c.loops, "Data_assign")

    # --- the evaluator's own guard in front of every assignment form (=, :=, op=): Equation_AST_Node::eval_internal.
    # Sub-statement extraction: the if / else-if chain that starts with `if (params[0].is_return_value())`; what is
    # dropped is everything after it (the assignment itself), which the contract treats as "may modify the lhs".
    ev = chai2c.Header("include/chaiscript/language/chaiscript_eval.hpp")
    est = ev.slice_block("struct Equation_AST_Node")
    em = ev.masked
    gs = em.find("if (params[0].is_return_value())", est.ob, est.cb)
    if gs < 0:
        raise ExtractionBreak("Equation_AST_Node::eval_internal: guard chain `if (params[0].is_return_value())` not found")
    pos = gs
    while True:
        mm = re.match(r"if\s*\(", em[pos:])
        if not mm:
            raise ExtractionBreak("Equation guard chain: `if (` expected")
        cp = chai2c.match_brace(em, pos + mm.end() - 1, "(", ")")
        ob2 = em.index("{", cp)
        if em[cp + 1:ob2].strip():
            raise ExtractionBreak("Equation guard chain: unbraced branch")
        cb2 = chai2c.match_brace(em, ob2)
        nxt = re.match(r"\s*else\s+(?=if\b)", em[cb2 + 1:])
        if nxt:
            pos = cb2 + 1 + nxt.end()
            continue
        if re.match(r"\s*else\b", em[cb2 + 1:]):
            raise ExtractionBreak("Equation guard chain: plain else branch not in the rule set")
        break
    gsl = chai2c.Slice(ev, "Equation_AST_Node::eval_internal guard chain", gs, gs, cb2)
    gsl.body = chai2c.strip_comments(ev.text[gs:cb2 + 1])
    gr = base_rules()
    gr.add("R2.p0_rv", r"\bparams\[0\]\.is_return_value\(\)", "Boxed_Value_is_return_value(lhs)", min_fire=1)
    gr.add("R2.p0_const", r"\bparams\[0\]\.is_const\(\)", "Boxed_Value_is_const(lhs)")
    gr.add("R2.p0_undef", r"\bparams\[0\]\.is_undef\(\)", "Type_Info_is_undef(&lhs->m_data->m_type_info)")
    gr.add("R2.p0_arith", r"\bparams\[[01]\]\.get_type_info\(\)\.is_arithmetic\(\)", "verif_nondet_bool()")
    gr.add("R7.opers", r"\bOperators::Opers::(\w+)", r"Opers_\1")
    ethr = throw_rule({"eval_error": "K_eval_error"}, "include/chaiscript/language/chaiscript_eval.hpp")

    def gpre(b):
        b2, n = ethr(b, "Equation_guard")
        if n < 1:
            raise ExtractionBreak("Equation guard chain: no throw found")
        return b2
    ops = re.findall(r"\bOperators::Opers::(\w+)", gsl.body)
    kb.add("enum { Opers_invalid = 0" + "".join(", Opers_%s = %d" % (o, k + 1) for k, o in enumerate(sorted(set(ops) - {"invalid"}))) + " };")
    c = C("Equation_guard")
    kb.emit_function("void Equation_guard(const Boxed_Value *lhs, int m_oper)", gsl, gr, c.fn, c.loops, "Equation_guard", pre=gpre)

    # --- targets (everything is loop-free and tiny: callees are inlined, each function is
    # still proved against its own contract)
    def H(cname, decl, call, replace=()):
        kb.add("void h_%s(void) { %s %s; VERIF_CANARY(\"%s returns normally\"); }" % (cname, nondet_bools(decl), call, cname))
        kb.targets.append(Target(cname, "h_" + cname, replace=list(replace)))

    H("Type_Info_ctor", "Type_Info *s; bool a, b, c, d, e; const verif_type_info *t, *u;", "Type_Info_ctor(s, a, b, c, d, e, t, u)")
    H("Type_Info_eq", "Type_Info *s, *t;", "Type_Info_eq(s, t)")
    H("Type_Info_eq_ti", "Type_Info *s; const verif_type_info *t;", "Type_Info_eq_ti(s, t)")
    H("Type_Info_bare_equal", "Type_Info *s, *t;", "Type_Info_bare_equal(s, t)")
    H("Type_Info_bare_equal_type_info", "Type_Info *s; const verif_type_info *t;", "Type_Info_bare_equal_type_info(s, t)")
    for g in ("is_const", "is_reference", "is_void", "is_arithmetic", "is_undef", "is_pointer"):
        H("Type_Info_" + g, "Type_Info *s;", "Type_Info_%s(s)" % g)
    H("Data_ctor", "Data *d; Type_Info *t; bool r, v; const void *p;", "Data_ctor(d, t, r, p, v)")
    for a in ("get_type_info", "is_const", "get_ptr", "get_const_ptr", "is_return_value"):
        H("Boxed_Value_" + a, "Boxed_Value *b;", "Boxed_Value_%s(b)" % a)
    H("throw_if_null", "void *p;", "throw_if_null(p)")
    H("verify_type_no_throw_c", "Boxed_Value *b; const verif_type_info *t; const void *p;", "verify_type_no_throw_c(b, t, p)")
    H("verify_type_no_throw_m", "Boxed_Value *b; const verif_type_info *t; void *p;", "verify_type_no_throw_m(b, t, p)")
    H("verify_type_c", "Boxed_Value *b; const verif_type_info *t; const void *p;", "verify_type_c(b, t, p)")
    H("verify_type_m", "Boxed_Value *b; const verif_type_info *t; void *p;", "verify_type_m(b, t, p)")
    for cn in ("cast_const_ptr", "cast_ptr", "cast_const_ref", "cast_ref", "cast_rref"):
        H(cn, "Boxed_Value *b;", "%s(b)" % cn)
    H("Data_assign", "Data *d; const Data *r;", "Data_assign(d, r)")
    if prop == "C07":
        H("Equation_guard", "Boxed_Value *b; int o;", "Equation_guard(b, o)")
        # --- Boxed_Value::assign re-seats the shared Data of the left-hand side: every holder of that value then denotes the new
        # one.  The two C++ functions registered as `=` that call it (bootstrap.hpp: ptr_assign<Type> for function objects,
        # unknown_assign for undefined values) may do so only for an undefined or non-const left-hand side.
        bs = chai2c.Header("include/chaiscript/dispatchkit/bootstrap.hpp")
        c = C("verif_Boxed_Value_assign")
        kb.emit_stub("void verif_Boxed_Value_assign(Boxed_Value *lhs)", c.fn, "verif_Boxed_Value_assign")
        kb.functions.append("verif_Boxed_Value_assign (stub: its precondition IS the property clause - only an undefined or non-const value is re-seated)")
        isl = bv.slice_function("bool is_type(const Type_Info &ti) const noexcept")
        ir = base_rules()
        ir.add("R1.is_type", r"\bm_data->m_type_info\.bare_equal\(ti\)", "Type_Info_bare_equal(&self->m_data->m_type_info, ti)", min_fire=1)
        kb.emit_function("bool Boxed_Value_is_type(const Boxed_Value *self, const Type_Info *ti)", isl, ir, [], {}, "Boxed_Value_is_type")
        ar = base_rules()
        ar.add("R2.undef", r"\blhs\.is_undef\(\)", "Type_Info_is_undef(&lhs->m_data->m_type_info)", min_fire=1)
        ar.add("R2.gti_const", r"\blhs\.get_type_info\(\)\.is_const\(\)", "Type_Info_is_const(Boxed_Value_get_type_info(lhs))")
        ar.add("R2.is_const", r"\blhs\.is_const\(\)", "Boxed_Value_is_const(lhs)")
        ar.add("R2.gti_bare", r"\blhs\.get_type_info\(\)\.bare_equal\(chaiscript::detail::Get_Type_Info<Type>::get\(\)\)", "Type_Info_bare_equal(Boxed_Value_get_type_info(lhs), type_ti)")
        ar.add("R2.is_type", r"\blhs\.is_type\(chaiscript::detail::Get_Type_Info<Type>::get\(\)\)", "Boxed_Value_is_type(lhs, type_ti)")
        ar.add("R9.assign1", r"\blhs\.assign\(Boxed_Value\(rhs\)\);", "verif_Boxed_Value_assign(lhs);")
        ar.add("R9.assign2", r"\breturn \(lhs\.assign\(rhs\)\);", "{ verif_Boxed_Value_assign(lhs); return; }")
        ar.add("R9.ret", r"\breturn lhs;", "return;")
        bthr = throw_rule({"bad_boxed_cast": "K_bad_boxed_cast"}, "include/chaiscript/dispatchkit/bootstrap.hpp")
        for anchor_, csig, cname in (
                ("Boxed_Value ptr_assign(Boxed_Value lhs, const std::shared_ptr<Type> &rhs)", "void ptr_assign(Boxed_Value *lhs, const Type_Info *type_ti)", "ptr_assign"),
                ("static Boxed_Value unknown_assign(Boxed_Value lhs, Boxed_Value rhs)", "void unknown_assign(Boxed_Value *lhs)", "unknown_assign")):
            sl = bs.slice_function(anchor_)
            c = C(cname)

            def apre(b, cname=cname):
                b2, n = bthr(b, cname)
                if "assign(" not in b2:
                    raise ExtractionBreak("%s no longer calls Boxed_Value::assign" % cname)
                return b2
            kb.emit_function(csig, sl, ar, c.fn, c.loops, cname, pre=apre)
        H("ptr_assign", "Boxed_Value *b; Type_Info *t;", "ptr_assign(b, t)", replace=["verif_Boxed_Value_assign"])
        H("unknown_assign", "Boxed_Value *b;", "unknown_assign(b)", replace=["verif_Boxed_Value_assign"])
        kb.static_facts.append(literal_const_fact())
    if tier == "thorough" and prop == "C07":
        import engine_probe
        rc, cases, err = engine_probe.run("c07")
        kb.static_facts.append(("native battery (thorough tier): probe_engine.cpp c07 - 24 ways to modify a const value are all refused on the real engine", rc == 0 and not cases, (err.strip() + " " + str(cases[:3]))[:400]))
    kb.assumptions += [
        "A7: std::type_info equality is identity of the type (modelled as an id comparison)",
        "std::shared_ptr<Data> is a plain pointer here; chaiscript::detail::Any (m_obj) and attributes (m_attrs) are dropped from Data - "
        "ownership and attribute maps are outside this kernel",
        "the cast helpers are instantiated at one opaque Result type (their bodies do not depend on Result beyond typeid)",
        "overload resolution of verify_type/verify_type_no_throw is done by the extractor from the argument spelling "
        "(get_const_ptr() -> const overload, get_ptr() -> mutable overload); C++ would reject the other pairing at compile time",
    ]
    kb.unverified += ["call_func pack expansion and dispatch() ordering / exactly-one-overload (exception-driven retry loop)",
                      "Get_Type_Info<T>::get() compile-time flags (checked natively by static_assert in thorough tier)",
                      "conversions (Type_Conversions), Boxed_Number catch-all, std::function wrappers"]
    return kb
