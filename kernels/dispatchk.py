"""Kernel K6b: the arity / exact-match gates of function dispatch (property C06).
  Proxy_Function_Base::operator()                    (proxy_functions.hpp)  - a function body is entered only with its own arity
  the has_arity_match predicate of dispatch::functor  (function_call.hpp)    - a script function becomes std::function<Sig> only with Sig's arity
  the numdiffs loop of dispatch::dispatch             (proxy_functions.hpp)  - a parameter whose bare type equals the argument's never counts
                                                                               as a difference, one whose bare type differs always does
Type_Info is seen here through the PROVED contracts of kernel K6 (Type_Info_eq: same type_info id,
Type_Info_bare_equal: same bare type_info id), as a pair of ids."""
import re

from common import (KernelBuild, Target, Rules, ExtractionBreak, base_rules, load_contracts, throw_rule, chai2c)

PF = "include/chaiscript/dispatchkit/proxy_functions.hpp"
FC = "include/chaiscript/dispatchkit/function_call.hpp"
TC = "include/chaiscript/dispatchkit/type_conversions.hpp"

HEADER = r'''
#define VERIF_THROW_OK(kind) ((kind) == K_arity_error ? verif_spec_arity_mismatch : 0)
_Bool verif_spec_arity_mismatch; /* spec: the call must be refused with arity_error */
#include "verif_stl.h"
int verif_thrown;
typedef struct PFB { int m_arity; } PFB; /* Proxy_Function_Base: only the arity matters here */
/* Type_Info as the pair of ids its proved comparison contracts speak about (K6) */
typedef struct TI2 { int full; int bare; } TI2;
static inline bool TI2_eq(const TI2 *a, const TI2 *b) { return a->full == b->full; }
static inline bool TI2_bare_equal(const TI2 *a, const TI2 *b) { return a->bare == b->bare; }
size_t verif_k; /* ghost: an arbitrary parameter position (never assigned: stands for "for all k") */
void verif_do_call(const PFB *self, size_t nparams);
'''


def build(prop, tier="quick"):
    kb = KernelBuild("dispatch", prop)
    contracts = load_contracts("K6b_dispatch.contracts")
    kb.add(HEADER)
    pf = chai2c.Header(PF)
    fc = chai2c.Header(FC)

    def C(name):
        return chai2c.contracts_for(contracts, name, prop)

    # --- the body entry stub: its precondition IS the property ("entered only with its own number of arguments")
    c = C("verif_do_call")
    kb.emit_stub("void verif_do_call(const PFB *self, size_t nparams)", c.fn, "verif_do_call")
    kb.functions.append("verif_do_call (stands for the virtual do_call: precondition = the arity clause of the property)")

    # --- Proxy_Function_Base::operator()
    st = pf.slice_block("class Proxy_Function_Base")
    sl = pf.slice_function("Boxed_Value operator()(const Function_Params &params, const chaiscript::Type_Conversions_State &t_conversions) const", after=st.ob)
    thr = throw_rule({"arity_error": "K_arity_error"}, PF)
    r = Rules("pfb")
    r.add("R6.fcast", r"\bsize_t\(", "(size_t)(")
    r.extend(base_rules())
    r.add("R9.psize", r"\bparams\.size\(\)", "nparams")
    r.add("R9.docall", r"\breturn do_call\(params, t_conversions\);", "{ verif_do_call(self, nparams); return; }", min_fire=1)
    r.add("R1.arity", r"(?<![\w.>])m_arity\b", "self->m_arity")

    def pre(b):
        b2, n = thr(b, "Proxy_Function_Base_call")
        if n != 1:
            raise ExtractionBreak("Proxy_Function_Base::operator(): expected one throw")
        return b2
    c = C("Proxy_Function_Base_call")
    kb.emit_function("void Proxy_Function_Base_call(const PFB *self, size_t nparams)", sl, r, c.fn, c.loops, "Proxy_Function_Base_call", pre=pre, ghost=c.ghost)
    kb.add('void h_Proxy_Function_Base_call(void) { const PFB *f; size_t n; Proxy_Function_Base_call(f, n); VERIF_CANARY("operator() returns normally"); }')
    kb.targets.append(Target("Proxy_Function_Base_call", "h_Proxy_Function_Base_call", replace=["verif_do_call"]))

    # --- dispatch::functor: the arity predicate (a lambda handed to std::any_of)
    fs = fc.slice_function("std::function<FunctionType> functor(const std::vector<Const_Proxy_Function> &funcs, const Type_Conversions_State *t_conversions)")
    mm = re.search(r"std::any_of\(funcs\.begin\(\), funcs\.end\(\), \[\]\(const Const_Proxy_Function &f\)\s*\{", fs.body)
    if not mm:
        raise ExtractionBreak("functor(): the has_arity_match predicate (lambda in std::any_of) not found")
    base = fs.ob + 1
    ob = base + mm.end() - 1
    cb = chai2c.match_brace(fc.masked, ob)
    lsl = chai2c.Slice(fc, "functor: has_arity_match predicate", base + mm.start(), ob, cb)
    r = Rules("functor")
    r.add("R9.sigarity", r"\bdetail::arity\(static_cast<FunctionType \*>\(nullptr\)\)", "sig_arity", min_fire=1)
    r.add("R9.farity", r"\bf->get_arity\(\)", "f_arity", min_fire=1)
    r.add("R6.fcast", r"\bsize_t\(", "(size_t)(")
    r.extend(base_rules())
    c = C("functor_arity_pred")
    kb.emit_function("bool functor_arity_pred(int f_arity, size_t sig_arity)", lsl, r, c.fn, c.loops, "functor_arity_pred")
    kb.add('void h_functor_arity_pred(void) { int a; size_t s; functor_arity_pred(a, s); VERIF_CANARY("predicate returns normally"); }')
    kb.targets.append(Target("functor_arity_pred", "h_functor_arity_pred"))
    if "if (!has_arity_match)" not in " ".join(fs.body.split()) or "throw exception::bad_boxed_cast" not in fs.body:
        raise ExtractionBreak("functor(): `if (!has_arity_match) throw bad_boxed_cast` not found")

    # --- Dispatch_Engine::is_attribute_call: the predicate handed to std::any_of.  `obj.name(args)` is treated as "fetch the
    # attribute `name` of obj, then call the result with args" only if some overload of `name` is an attribute function WHOSE
    # OBJECT TYPE ACCEPTS obj; otherwise the call is an ordinary method call with all its arguments (exact match first).
    dkh = chai2c.Header("include/chaiscript/dispatchkit/dispatchkit.hpp")
    ia = dkh.slice_function("static bool is_attribute_call(const std::vector<Proxy_Function> &t_funs,")
    mm = re.search(r"std::any_of\(std::begin\(t_funs\), std::end\(t_funs\), \[[&=]?\]\(const auto &fun\)\s*\{", ia.body)
    if not mm:
        raise ExtractionBreak("is_attribute_call(): the predicate (lambda in std::any_of) not found")
    base = ia.ob + 1
    ob = base + mm.end() - 1
    cb = chai2c.match_brace(dkh.masked, ob)
    asl = chai2c.Slice(dkh, "is_attribute_call: predicate", base + mm.start(), ob, cb)
    r = Rules("is_attribute_call")
    r.add("R9.isattr", r"\bfun->is_attribute_function\(\)", "fun_is_attribute", min_fire=1)
    r.add("R9.first", r"\bfun->compare_first_type\(t_params\[0\], t_conversions\)", "first_type_accepts")
    r.extend(base_rules())
    c = C("is_attribute_call_pred")
    kb.emit_function("bool is_attribute_call_pred(bool fun_is_attribute, bool first_type_accepts)", asl, r, c.fn, c.loops, "is_attribute_call_pred")
    kb.add('void h_is_attribute_call_pred(void) { bool a = verif_nondet_bool(), b = verif_nondet_bool(); is_attribute_call_pred(a, b); VERIF_CANARY("predicate returns normally"); }')
    kb.targets.append(Target("is_attribute_call_pred", "h_is_attribute_call_pred"))

    # --- dispatch(): the numdiffs loop
    ds = pf.slice_function("Boxed_Value dispatch(const Funcs &funcs, const Function_Params &plist, const Type_Conversions_State &t_conversions)")
    body = ds.body
    a = body.find("size_t numdiffs = 0;")
    b = body.find("ordered_funcs.emplace_back(numdiffs, func.get());")
    if a < 0 or b < 0 or b < a:
        raise ExtractionBreak("dispatch(): numdiffs computation not found")
    nsl = chai2c.Slice(pf, "dispatch: numdiffs loop", ds.ob + 1 + a, ds.ob + 1 + a, ds.ob + 1 + b)
    nsl.body = body[a:b] + " return numdiffs;"
    r = Rules("numdiffs")
    r.add("R9.ptypes", r"\bfunc->get_param_types\(\)\[([^\[\]]+)\]", r"ptypes[\1]", min_fire=1)
    r.add("R9.atypes", r"\bplist\[([^\[\]]+)\]\.get_type_info\(\)", r"atypes[\1]", min_fire=1)
    r.add("R9.n", r"\bplist\.size\(\)", "n")
    r.add("R3.bare", r"(ptypes\[[^\[\]]+\])\.bare_equal\((atypes\[[^\[\]]+\])\)", r"TI2_bare_equal(&\1, &\2)")
    r.add("R3.ne", r"(ptypes\[[^\[\]]+\]) != (atypes\[[^\[\]]+\])", r"!TI2_eq(&\1, &\2)")
    r.add("R3.eq", r"(ptypes\[[^\[\]]+\]) == (atypes\[[^\[\]]+\])", r"TI2_eq(&\1, &\2)")
    r.extend(base_rules())
    c = C("dispatch_numdiffs")
    kb.emit_function("size_t dispatch_numdiffs(const TI2 *ptypes, const TI2 *atypes, size_t n)", nsl, r, c.fn, c.loops, "dispatch_numdiffs", ghost=c.ghost)
    kb.add('void h_dispatch_numdiffs(void) { const TI2 *p, *a; size_t n; dispatch_numdiffs(p, a, n); VERIF_CANARY("numdiffs returns normally"); }')
    t = Target("dispatch_numdiffs", "h_dispatch_numdiffs", objbits=8)
    t.expect_loops = True
    t.invariant_class = "P"  # the invariant is the property clause itself (per position k), not a helper lemma
    kb.targets.append(t)
    kb.static_facts.append(downcast_fact())
    if tier == "thorough":
        import engine_probe
        rc, cases, err = engine_probe.run("c06")
        kb.static_facts.append(("native battery (thorough tier): probe_engine.cpp c06 scenarios on the real engine", rc == 0 and not cases, (err.strip() + " " + str(cases[:3]))[:400]))
    kb.assumptions += [
        "verif_do_call stands for the virtual do_call (entering the function body); its precondition is the arity clause of the property",
        "Type_Info comparisons enter this kernel through their contracts proved in kernel K6 (operator== <=> same type_info, bare_equal <=> same bare type_info)",
        "arities are >= -1 (-1 = variadic), as every Proxy_Function constructor passes them",
    ]
    kb.unverified += ["the order in which dispatch() tries the candidates and its exception-driven retry (exactly one overload entered once)",
                      "filter(), dispatch_with_conversions, Dynamic_Caster beyond the static fact, user conversions"]
    return kb


def downcast_fact():
    """supporting static fact: every Base -> Derived conversion in Dynamic_Caster is a checked dynamic_cast /
    dynamic_pointer_cast (a static_cast would hand a wrongly typed object to the C++ function)."""
    h = chai2c.Header(TC)
    sl = h.slice_block("class Dynamic_Caster")
    body = chai2c.eval_preproc(sl.body, {"__GNUC__"})  # default build configuration: CHAISCRIPT_LIBCPP undefined
    dyn = len(re.findall(r"\bdynamic_cast<|\bdynamic_pointer_cast<", body))
    stat = re.findall(r"\bstatic_cast<[^>]*\bTo\b[^>]*>|\bstatic_pointer_cast<[^>]*\bTo\b[^>]*>|\breinterpret_cast<", body)
    ok = dyn >= 4 and not stat
    return ("Dynamic_Caster reaches the target class only through dynamic_cast / dynamic_pointer_cast", ok,
            "%s: %d checked casts, unchecked casts to To: %s" % (sl.where(), dyn, stat or "none"))
