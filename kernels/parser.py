"""Kernels K1 (Position), K2 (lexers), K3 (parse_internal skeleton) from
include/chaiscript/language/chaiscript_parser.hpp, for properties C01, C20 (and the
lexer-shape part of C16)."""
import re

from common import (KernelBuild, Target, Rules, ExtractionBreak, base_rules, load_contracts, throw_rule,
                    chai2c)

HDR = "include/chaiscript/language/chaiscript_parser.hpp"

POSITION_FIELDS = ["line", "col", "m_pos", "m_end", "m_last_col"]

KERNEL_HEADER = r'''
#include "verif_prelude.h"
/* A4: input buffers are shorter than 2^31-2 bytes */
#define MAXLEN ((size_t)2147483645u)
#define OFF(p) ((size_t)__CPROVER_POINTER_OFFSET((p)->m_pos))
/* cursor validity.  Pointers living inside a fresh struct must be constrained with the
 * dfcc pointer predicates: a plain `==`/same_object assumption leaves cbmc's value set
 * empty and reads through the pointer return unconstrained values (probed). */
#define VALID(p) (__CPROVER_pointer_in_range_dfcc(g_buf, (p)->m_pos, g_buf + g_len) && __CPROVER_pointer_equals((p)->m_end, g_buf + g_len))
/* same predicate for loop invariants / assertions (no side effect needed there) */
#define VALIDI(p) (__CPROVER_same_object((p)->m_pos, g_buf) && (p)->m_end == g_buf + g_len && OFF(p) <= g_len)
#define BUFREQ (g_len <= MAXLEN && __CPROVER_is_fresh(g_buf, g_len))
const char *g_buf;
size_t g_len;
int verif_thrown;
'''


def position_struct(hdr, kb):
    """extract the field list of struct Position mechanically."""
    sl = hdr.slice_block("struct Position")
    fields = []
    for mm in re.finditer(r"^\s*(int|const char \*)\s*(\w+)\s*=\s*[^;]+;", sl.body, re.M):
        fields.append((mm.group(1), mm.group(2)))
    names = [f[1] for f in fields]
    if names != POSITION_FIELDS:
        raise ExtractionBreak("struct Position fields changed: %r" % names)
    kb.slices.append(("struct Position", sl.where(), sl.sha))
    txt = "typedef struct Position {\n" + "".join("  %s %s;\n" % f for f in fields) + "} Position;\n"
    return sl, txt


def position_rules():
    r = base_rules()
    r.add("R1.rhs", r"\bt_rhs\.", "t_rhs->")
    r.add("R1.field", r"(?<![\w.>])(" + "|".join(POSITION_FIELDS) + r")\b", r"self->\1")
    r.add("R1.copy_this", r"\bPosition ret\(\*this\);", "Position ret = *self;")
    r.add("R3.inc_ret", r"\+\+ret;", "Position_inc(&ret);")
    r.add("R3.dec_ret", r"--ret;", "Position_dec(&ret);")
    r.add("R1.pluseq", r"\*this = \(\*this\) \+ t_distance;", "*self = Position_plus(self, t_distance);")
    r.add("R1.minuseq", r"\*this = \(\*this\) - t_distance;", "*self = Position_minus(self, t_distance);")
    r.add("R1.ret_this", r"\breturn \*this;", "return;")
    return r


# (cname, anchor, C signature, extra must-fire rule ids, returns_ref)
POSITION_FUNCS = [
    ("Position_inc", "constexpr Position &operator++() noexcept", "void Position_inc(Position *self)",
     ["R1.ret_this"], False),
    ("Position_dec", "constexpr Position &operator--() noexcept", "void Position_dec(Position *self)",
     ["R1.ret_this"], False),
    ("Position_plus", "constexpr Position operator+(size_t t_distance) const noexcept",
     "Position Position_plus(const Position *self, size_t t_distance)", ["R1.copy_this", "R3.inc_ret"], False),
    ("Position_pluseq", "constexpr Position &operator+=(size_t t_distance) noexcept",
     "void Position_pluseq(Position *self, size_t t_distance)", ["R1.pluseq", "R1.ret_this"], False),
    ("Position_minus", "constexpr Position operator-(size_t t_distance) const noexcept",
     "Position Position_minus(const Position *self, size_t t_distance)", ["R1.copy_this", "R3.dec_ret"], False),
    ("Position_minuseq", "constexpr Position &operator-=(size_t t_distance) noexcept",
     "void Position_minuseq(Position *self, size_t t_distance)", ["R1.minuseq", "R1.ret_this"], False),
    ("Position_eq", "constexpr bool operator==(const Position &t_rhs) const noexcept",
     "bool Position_eq(const Position *self, const Position *t_rhs)", ["R1.rhs"], False),
    ("Position_ne", "constexpr bool operator!=(const Position &t_rhs) const noexcept",
     "bool Position_ne(const Position *self, const Position *t_rhs)", ["R1.rhs"], False),
    ("Position_has_more", "constexpr bool has_more() const noexcept", "bool Position_has_more(const Position *self)",
     [], False),
    ("Position_remaining", "constexpr size_t remaining() const noexcept",
     "size_t Position_remaining(const Position *self)", ["R6.static_cast"], False),
    ("Position_deref", "constexpr const char &operator*() const noexcept",
     "const char *Position_deref(const Position *self)", [], True),
]


def ref_return(body):
    """R2: a function returning `const char &` returns a pointer in C."""
    body, n = re.subn(r"\breturn\s+([^;]+);", r"return &(\1);", body)
    if n < 1:
        raise ExtractionBreak("R2.ref_return did not fire")
    return body


def emit_position(hdr, kb, contracts, prop):
    psl, ptxt = position_struct(hdr, kb)
    kb.add(ptxt)
    # prototypes
    for cname, anchor, csig, must, isref in POSITION_FUNCS:
        kb.add(csig + ";")
    base = psl.ob
    for cname, anchor, csig, must, isref in POSITION_FUNCS:
        sl = hdr.slice_function(anchor, after=base)
        if sl.cb > psl.cb:
            raise ExtractionBreak("%s not inside struct Position" % cname)
        rules = position_rules()
        fnc, loops = chai2c.contracts_for(contracts, cname, prop)
        kb.emit_function(csig, sl, rules, fnc, loops, cname, post=ref_return if isref else None)
        for rid in must:
            if kb.rules_fired.get(rid, 0) < 1:
                raise ExtractionBreak("must-fire %s did not fire for %s" % (rid, cname))


def position_targets(kb):
    def h(name, decl, call):
        kb.add("void h_%s(void) { %s %s; VERIF_CANARY(\"%s returns normally\"); }" % (name, decl, call, name))

    h("Position_inc", "Position *self;", "Position_inc(self)")
    h("Position_dec", "Position *self;", "Position_dec(self)")
    h("Position_plus", "Position *self; size_t d;", "Position_plus(self, d)")
    h("Position_pluseq", "Position *self; size_t d;", "Position_pluseq(self, d)")
    h("Position_minus", "Position *self; size_t d;", "Position_minus(self, d)")
    h("Position_minuseq", "Position *self; size_t d;", "Position_minuseq(self, d)")
    h("Position_eq", "Position *self; Position *r;", "Position_eq(self, r)")
    h("Position_ne", "Position *self; Position *r;", "Position_ne(self, r)")
    h("Position_has_more", "Position *self;", "Position_has_more(self)")
    h("Position_remaining", "Position *self;", "Position_remaining(self)")
    h("Position_deref", "Position *self;", "Position_deref(self)")
    T = kb.targets
    T.append(Target("Position_inc", "h_Position_inc"))
    T.append(Target("Position_dec", "h_Position_dec"))
    T.append(Target("Position_plus", "h_Position_plus", replace=["Position_inc"]))
    T.append(Target("Position_pluseq", "h_Position_pluseq", replace=["Position_plus"]))
    T.append(Target("Position_minus", "h_Position_minus", replace=["Position_dec"]))
    T.append(Target("Position_minuseq", "h_Position_minuseq", replace=["Position_minus"]))
    for f in ("eq", "ne", "has_more", "remaining", "deref"):
        T.append(Target("Position_" + f, "h_Position_" + f))


def build(prop, tier="quick"):
    kb = KernelBuild("parser", prop)
    hdr = chai2c.Header(HDR)
    kb.add(KERNEL_HEADER)
    contracts = load_contracts("K1_position.contracts")
    emit_position(hdr, kb, contracts, prop)
    position_targets(kb)
    return kb
