"""Kernels K1 (Position), K2 (lexers), K3 (parse_internal skeleton) from
include/chaiscript/language/chaiscript_parser.hpp, for properties C01, C20 (and the
lexer-shape part of C16)."""
import os
import re

from common import (nondet_bools, KernelBuild, Target, Rules, ExtractionBreak, base_rules, load_contracts, throw_rule,
                    chai2c, VERIF)

HDR = "include/chaiscript/language/chaiscript_parser.hpp"

POSITION_FIELDS = ["line", "col", "m_pos", "m_end", "m_last_col"]

KERNEL_HEADER = r'''
#include "verif_prelude.h"
/* A4: input buffers are shorter than 2^31-2 bytes */
#define MAXLEN ((size_t)2147483645u)
#define OFF(p) ((size_t)__CPROVER_POINTER_OFFSET((p)->m_pos))
/* cursor validity.  Pointers living inside a fresh struct must be constrained with the
 * dfcc pointer predicates: a plain `==`/same_object assumption leaves cbmc's value set
 * empty and reads through the pointer return unconstrained values (probed). */
#define VALID(p) (__CPROVER_pointer_in_range_dfcc(g_buf, (p)->m_pos, g_buf + g_len) && __CPROVER_pointer_equals((p)->m_end, g_buf + g_len))
/* same predicate for loop invariants / assertions (no side effect needed there) */
#define VALIDI(p) (__CPROVER_same_object((p)->m_pos, g_buf) && (p)->m_end == g_buf + g_len && OFF(p) <= g_len)
#define BUFREQ (g_len <= MAXLEN && __CPROVER_is_fresh(g_buf, g_len))
#define POFF OFF(&self->m_position)
#ifdef VERIF_CBMC
#define VERIF_GHOST(x) x
#else
#define VERIF_GHOST(x)
#endif
/* whitespace = the real white_alphabet row of m_alphabet (generated from the real header on every run) plus the line-end bytes */
#ifdef VERIF_CBMC
#define PCHAR_AT(d) ((g_len - POFF > (size_t)(d)) ? g_buf[POFF + (d)] : (char)0)
#else
#define PCHAR_AT(d) Position_peek(Position_plus(&self->m_position, (d)))
#endif
#define VERIF_IS_WS(c) (m_alphabet[detail_white_alphabet][(unsigned char)(c)] || (c) == '\r' || (c) == '\n')
#define PVALID VALID(&self->m_position)
#define PVALIDI VALIDI(&self->m_position)
#define PREQ (__CPROVER_is_fresh(self, sizeof(*self)) && BUFREQ && PVALID)
#define SSREQ(s) (__CPROVER_is_fresh(s, sizeof(*(s))) && (s)->m_size <= MAXLEN && __CPROVER_is_fresh((s)->data, (s)->m_size + 1))
const char *g_buf;
size_t g_len;
int verif_thrown;
'''


def position_struct(hdr, kb):
    """extract the field list of struct Position mechanically."""
    sl = hdr.slice_block("struct Position")
    fields = []
    # the members keep the types they have in the source (a narrower column type makes the C20 step lemma fail, as it should)
    for mm in re.finditer(r"^\s*(int|long|short|unsigned|size_t|(?:std::)?u?int(?:8|16|32|64)_t|const char \*)\s*(\w+)\s*=\s*[^;]+;", sl.body, re.M):
        fields.append((mm.group(1).replace("std::", ""), mm.group(2)))
    names = [f[1] for f in fields]
    if sorted(names) != sorted(POSITION_FIELDS):
        raise ExtractionBreak("struct Position fields changed: %r" % names)
    kb.slices.append(("struct Position", sl.where(), sl.sha))
    txt = "typedef struct Position {\n" + "".join("  %s %s;\n" % f for f in fields) + "} Position;\n"
    return sl, txt


def position_rules():
    r = base_rules()
    r.add("R1.rhs", r"\bt_rhs\.", "t_rhs->")
    r.add("R1.field", r"(?<![\w.>])(" + "|".join(POSITION_FIELDS) + r")\b", r"self->\1")
    r.add("R1.copy_this", r"\bPosition ret\(\*this\);", "Position ret = *self;")
    r.add("R3.inc_ret", r"\+\+ret;", "Position_inc(&ret);")
    r.add("R3.dec_ret", r"--ret;", "Position_dec(&ret);")
    r.add("R1.pluseq", r"\*this = \(\*this\) \+ t_distance;", "*self = Position_plus(self, t_distance);")
    r.add("R1.minuseq", r"\*this = \(\*this\) - t_distance;", "*self = Position_minus(self, t_distance);")
    r.add("R1.ret_this", r"\breturn \*this;", "return;")
    return r


# (cname, anchor, C signature, extra must-fire rule ids, returns_ref)
POSITION_FUNCS = [
    ("Position_inc", "constexpr Position &operator++() noexcept", "void Position_inc(Position *self)",
     ["R1.ret_this"], False),
    ("Position_dec", "constexpr Position &operator--() noexcept", "void Position_dec(Position *self)",
     ["R1.ret_this"], False),
    ("Position_plus", "constexpr Position operator+(size_t t_distance) const noexcept",
     "Position Position_plus(const Position *self, size_t t_distance)", ["R1.copy_this"], False),
    ("Position_pluseq", "constexpr Position &operator+=(size_t t_distance) noexcept",
     "void Position_pluseq(Position *self, size_t t_distance)", ["R1.pluseq", "R1.ret_this"], False),
    ("Position_minus", "constexpr Position operator-(size_t t_distance) const noexcept",
     "Position Position_minus(const Position *self, size_t t_distance)", ["R1.copy_this"], False),
    ("Position_minuseq", "constexpr Position &operator-=(size_t t_distance) noexcept",
     "void Position_minuseq(Position *self, size_t t_distance)", ["R1.minuseq", "R1.ret_this"], False),
    ("Position_eq", "constexpr bool operator==(const Position &t_rhs) const noexcept",
     "bool Position_eq(const Position *self, const Position *t_rhs)", ["R1.rhs"], False),
    ("Position_ne", "constexpr bool operator!=(const Position &t_rhs) const noexcept",
     "bool Position_ne(const Position *self, const Position *t_rhs)", ["R1.rhs"], False),
    ("Position_has_more", "constexpr bool has_more() const noexcept", "bool Position_has_more(const Position *self)",
     [], False),
    ("Position_remaining", "constexpr size_t remaining() const noexcept",
     "size_t Position_remaining(const Position *self)", ["R6.static_cast"], False),
    ("Position_deref", "constexpr const char &operator*() const noexcept",
     "const char *Position_deref(const Position *self)", [], True),
]


def ref_return(body):
    """R2: a function returning `const char &` returns a pointer in C."""
    body, n = re.subn(r"\breturn\s+([^;]+);", r"return &(\1);", body)
    if n < 1:
        raise ExtractionBreak("R2.ref_return did not fire")
    return body


def emit_position(hdr, kb, contracts, prop):
    psl, ptxt = position_struct(hdr, kb)
    kb.add(ptxt)
    # prototypes
    for cname, anchor, csig, must, isref in POSITION_FUNCS:
        kb.add(csig + ";")
    base = psl.ob
    for cname, anchor, csig, must, isref in POSITION_FUNCS:
        sl = hdr.slice_function(anchor, after=base)
        if sl.cb > psl.cb:
            raise ExtractionBreak("%s not inside struct Position" % cname)
        rules = position_rules()
        c = chai2c.contracts_for(contracts, cname, prop)
        kb.emit_function(csig, sl, rules, c.fn, c.loops, cname, post=ref_return if isref else None, ghost=c.ghost)
        for rid in must:
            if kb.rules_fired.get(rid, 0) < 1:
                raise ExtractionBreak("must-fire %s did not fire for %s" % (rid, cname))


def position_targets(kb):
    def h(name, decl, call):
        kb.add("void h_%s(void) { %s %s; VERIF_CANARY(\"%s returns normally\"); }" % (name, decl, call, name))

    h("Position_inc", "Position *self;", "Position_inc(self)")
    h("Position_dec", "Position *self;", "Position_dec(self)")
    h("Position_plus", "Position *self; size_t d;", "Position_plus(self, d)")
    h("Position_pluseq", "Position *self; size_t d;", "Position_pluseq(self, d)")
    h("Position_minus", "Position *self; size_t d;", "Position_minus(self, d)")
    h("Position_minuseq", "Position *self; size_t d;", "Position_minuseq(self, d)")
    h("Position_eq", "Position *self; Position *r;", "Position_eq(self, r)")
    h("Position_ne", "Position *self; Position *r;", "Position_ne(self, r)")
    h("Position_has_more", "Position *self;", "Position_has_more(self)")
    h("Position_remaining", "Position *self;", "Position_remaining(self)")
    h("Position_deref", "Position *self;", "Position_deref(self)")
    T = kb.targets
    T.append(Target("Position_inc", "h_Position_inc"))
    T.append(Target("Position_dec", "h_Position_dec"))
    T.append(Target("Position_plus", "h_Position_plus", replace=["Position_inc"]))
    T.append(Target("Position_pluseq", "h_Position_pluseq", replace=["Position_plus"]))
    T.append(Target("Position_minus", "h_Position_minus", replace=["Position_dec"]))
    T.append(Target("Position_minuseq", "h_Position_minuseq", replace=["Position_minus"]))
    for f in ("eq", "ne", "has_more", "remaining", "deref"):
        T.append(Target("Position_" + f, "h_Position_" + f))
    if kb.prop == "C20":
        # undo lemmas (DESIGN 7/C20): backing up over what was just consumed restores the coordinates - the exact
        # sense in which one remembered column suffices.  Real bodies inlined, fixed distances, loops fully unwound.
        c = chai2c.contracts_for(load_contracts("K1_position.contracts"), "lemma_undo2", kb.prop)
        kb.emit_stub("void lemma_undo2(Position *p)", c.fn, "lemma_undo2", body=" Position_pluseq(p, 2); Position_minuseq(p, 2); ")
        c = chai2c.contracts_for(load_contracts("K1_position.contracts"), "lemma_undo1", kb.prop)
        kb.emit_stub("void lemma_undo1(Position *p)", c.fn, "lemma_undo1", body=" Position_inc(p); Position_dec(p); ")
        for nm in ("lemma_undo2", "lemma_undo1"):
            kb.add('void h_%s(void) { Position *p; %s(p); VERIF_CANARY("%s returns normally"); }' % (nm, nm, nm))
            t = Target(nm, "h_" + nm, loops=False, unwind=3,
                       bounded_note="fixed distances 1 and 2: the loops of operator+ / operator- are fully unwound (unwinding assertions on) - complete")
            t.complete = True
            T.append(t)
            kb.functions.append(nm)



# ------------------------------------------------------------------ K2 lexers

KINDMAP = {"eval_error": "K_eval_error"}

SIBLINGS = ["Symbol_", "Char_", "Eol_", "Eol", "SkipComment", "SkipWS", "read_exponent_and_suffix", "char_in_alphabet",
            "Keyword_", "Float_", "Hex_", "Binary_", "IntSuffix_", "Id_", "Quoted_String_", "Single_Quoted_String_"]
POS_IDS = "m_position|tmp|start|exponent_pos"


def lexer_rules(autos):
    r = base_rules()
    for i, (pat, repl) in enumerate(autos):
        r.add("R8.auto%d:%s" % (i, repl.split("=")[0].strip()), pat, repl, min_fire=1)
    # R4 default arguments of siblings (C has none)
    r.add("R4.default.Eol_", r"(?<![\w.>])Eol_\(\)", "Eol_(false)")
    r.add("R4.default.SkipWS", r"(?<![\w.>])SkipWS\(\)", "SkipWS(false)")
    # R3 operator sugar on Position-typed identifiers
    r.add("R3.peek", r"\*\((" + POS_IDS + r") \+ (\w+)\)", r"Position_peek(Position_plus(&\1, \2))")
    r.add("R3.addr_deref", r"&\(\*(" + POS_IDS + r")\)", r"Position_deref(&\1)")
    r.add("R3.deref", r"(?<![\w)\]])\*(" + POS_IDS + r")\b", r"(*Position_deref(&\1))")
    r.add("R3.inc", r"\+\+(" + POS_IDS + r")\b", r"Position_inc(&\1)")
    r.add("R3.dec", r"--(" + POS_IDS + r")\b", r"Position_dec(&\1)")
    r.add("R3.pluseq", r"\b(" + POS_IDS + r") \+= ([^;]+);", r"Position_pluseq(&\1, \2);")
    r.add("R3.minuseq", r"\b(" + POS_IDS + r") -= ([^;]+);", r"Position_minuseq(&\1, \2);")
    r.add("R3.has_more", r"\b(" + POS_IDS + r")\.has_more\(\)", r"Position_has_more(&\1)")
    r.add("R3.remaining", r"\b(" + POS_IDS + r")\.remaining\(\)", r"Position_remaining(&\1)")
    r.add("R3.eq", r"\b(" + POS_IDS + r") == (" + POS_IDS + r")\b", r"Position_eq(&\1, &\2)")
    r.add("R3.ne", r"\b(" + POS_IDS + r") != (" + POS_IDS + r")\b", r"Position_ne(&\1, &\2)")
    # R4 sibling calls
    r.add("R4.sib", r"(?<![\w.>])(" + "|".join(SIBLINGS) + r")\(", r"Parser_\1(self, ")
    r.add("R4.sib0", r"\(self, \)", "(self)")
    # R2 Static_String reference parameters
    r.add("R2.ssarg", r"Parser_(Symbol_|Keyword_)\(self, (m_\w+)\)", r"Parser_\1(self, &\2)")
    r.add("R2.ss", r"\b(sym|t_s)\.(size|c_str)\(\)", r"Static_String_\2(\1)")
    # R7 scoped enumerators
    r.add("R7.detail", r"\bdetail::(\w+)", r"detail_\1")
    # R1 members
    r.add("R1.member", r"(?<![\w.>])(m_position|m_current_parse_depth)\b", r"self->\1")
    return r


def raii_depth_counter(rettype):
    """R9: `Depth_Counter dc{this};` + destructor call before every return (A2: C++ runs
    the destructor on every exit; throw paths end in the encoding)."""

    def f(body):
        body, n = re.subn(r"\bDepth_Counter dc\{this\};", "Depth_Counter dc; Depth_Counter_ctor(&dc, self);", body)
        if n != 1:
            raise ExtractionBreak("R9.raii: Depth_Counter dc{this}; not found exactly once")
        body, n = re.subn(r"\breturn\s+([^;]+);", r"{ %s verif_r = (\1); Depth_Counter_dtor(&dc); return verif_r; }" % rettype, body)
        if n < 1:
            raise ExtractionBreak("R9.raii: no return statement")
        return body

    return f


A_POS = lambda v, const="": (r"\b%sauto %s = m_position;" % (const, v), "%sPosition %s = m_position;" % (const, v))

# (cname, anchor, C signature, autos, raii rettype or None)
LEXER_FUNCS = [
    ("Parser_char_in_alphabet", "constexpr bool char_in_alphabet(char c, detail::Alphabet a) const noexcept",
     "bool Parser_char_in_alphabet(const Parser *self, char c, int a)", [], None),
    ("Parser_Symbol_", "inline auto Symbol_(const utility::Static_String &sym) noexcept",
     "bool Parser_Symbol_(Parser *self, const Static_String *sym)",
     [(r"\bconst auto len = sym\.size\(\);", "const size_t len = sym.size();")], None),
    ("Parser_SkipComment", "bool SkipComment()", "bool Parser_SkipComment(Parser *self)", [], None),
    ("Parser_SkipWS", "bool SkipWS(bool skip_cr = false)", "bool Parser_SkipWS(Parser *self, bool skip_cr)",
     [(r"\bauto end_line = ", "bool end_line = "),
      # block contract on the whitespace branch (C01: "never silently drops text"): what this branch consumes is one
      # blank / tab / line-end byte, or the two bytes CR LF - ghost code, present under cbmc only
      (r"(if \(char_in_alphabet\(\*m_position, detail::white_alphabet\) \|\| \(skip_cr && end_line\)\) \{)",
       r"\1 VERIF_GHOST(const size_t verif_ws0 = POFF; const char verif_c0 = *m_position; const char verif_c1 = *(m_position + 1);)"),
      (r"(retval = true;\s*\} else if \(SkipComment\(\)\))",
       r"VERIF_GHOST(__CPROVER_assert((POFF == verif_ws0 + 1 && VERIF_IS_WS(verif_c0)) || (POFF == verif_ws0 + 2 && verif_c0 == '\\r' && verif_c1 == '\\n'), "
       r'"[P] outside comments SkipWS consumes only blanks, tabs and line ends");) \1')], None),
    ("Parser_read_exponent_and_suffix", "bool read_exponent_and_suffix() noexcept",
     "bool Parser_read_exponent_and_suffix(Parser *self)", [A_POS("exponent_pos")], None),
    ("Parser_Float_", "bool Float_() noexcept", "bool Parser_Float_(Parser *self)", [], None),
    ("Parser_Hex_", "bool Hex_() noexcept", "bool Parser_Hex_(Parser *self)", [], None),
    ("Parser_IntSuffix_", "void IntSuffix_()", "void Parser_IntSuffix_(Parser *self)", [], None),
    ("Parser_Binary_", "bool Binary_()", "bool Parser_Binary_(Parser *self)", [], None),
    ("Parser_Id_", "bool Id_()", "bool Parser_Id_(Parser *self)", [A_POS("start", "const ")], None),
    ("Parser_Quoted_String_", "bool Quoted_String_()", "bool Parser_Quoted_String_(Parser *self)", [], None),
    ("Parser_Single_Quoted_String_", "bool Single_Quoted_String_()", "bool Parser_Single_Quoted_String_(Parser *self)", [], None),
    ("Parser_Char_", "bool Char_(const char c)", "bool Parser_Char_(Parser *self, const char c)", [], None),
    ("Parser_Keyword_", "bool Keyword_(const utility::Static_String &t_s)",
     "bool Parser_Keyword_(Parser *self, const Static_String *t_s)",
     [(r"\bconst auto len = t_s\.size\(\);", "const size_t len = t_s.size();"), A_POS("tmp")], None),
    ("Parser_Eol_", "bool Eol_(const bool t_eos = false)", "bool Parser_Eol_(Parser *self, const bool t_eos)", [], None),
    ("Parser_Eol", "bool Eol()", "bool Parser_Eol(Parser *self)", [], "bool"),
]


def static_strings(hdr, kb):
    """constexpr static utility::Static_String m_x{"..."}; -> C initializers (m_size =
    N-1 as in Static_String's array-reference constructor)."""
    out = []
    names = []
    for mm in re.finditer(r'constexpr static utility::Static_String (m_\w+)\{("(?:[^"\\]|\\.)*")\};', hdr.text):
        name, lit = mm.group(1), mm.group(2)
        out.append("static const Static_String %s = {sizeof(%s) - 1, %s};" % (name, lit, lit))
        names.append(name)
    need = {"m_multiline_comment_end", "m_multiline_comment_begin", "m_singleline_comment", "m_annotation", "m_cr_lf"}
    if not need <= set(names):
        raise ExtractionBreak("Static_String constants changed: %r" % names)
    return "\n".join(out) + "\n"


def alphabet_enum(hdr, kb):
    sl = hdr.slice_block("enum Alphabet")
    names = re.findall(r"^\s*(\w+)\s*(=\s*\d+)?\s*,?\s*$", sl.body, re.M)
    body = re.sub(r"^(\s*)(\w+)", r"\1detail_\2", sl.body, flags=re.M)
    kb.slices.append(("enum Alphabet", sl.where(), sl.sha))
    if "detail_max_alphabet" not in body or "detail_white_alphabet" not in body:
        raise ExtractionBreak("enum Alphabet not understood")
    return "enum detail_Alphabet {" + body + "};\n"


def parse_depth(hdr):
    mm = re.search(r"template<typename Tracer, typename Optimizer, std::size_t Parse_Depth = (\d+)>\s*class ChaiScript_Parser", hdr.text)
    if not mm:
        raise ExtractionBreak("Parse_Depth default not found")
    return int(mm.group(1))


def emit_static_string(kb, contracts, prop):
    hdr = chai2c.Header("include/chaiscript/utility/static_string.hpp")
    kb.add("typedef struct Static_String { size_t m_size; const char *data; } Static_String;")
    fields = re.findall(r"^\s*const (size_t) (m_size);\s*$|^\s*(const char \*)(data) = nullptr;\s*$", hdr.text, re.M)
    if len(fields) != 2:
        raise ExtractionBreak("Static_String fields changed")
    for cname, anchor, csig in [
        ("Static_String_size", "constexpr size_t size() const noexcept", "size_t Static_String_size(const Static_String *self)"),
        ("Static_String_c_str", "constexpr const char *c_str() const noexcept", "const char *Static_String_c_str(const Static_String *self)"),
    ]:
        sl = hdr.slice_function(anchor)
        r = base_rules()
        r.add("R1.field", r"(?<![\w.>])(m_size|data)\b", r"self->\1", min_fire=1)
        c = chai2c.contracts_for(contracts, cname, prop)
        kb.emit_function(csig, sl, r, c.fn, c.loops, cname)


def emit_depth_counter(hdr, kb, contracts, prop):
    kb.add("typedef struct Depth_Counter { Parser *parser; } Depth_Counter;")
    kb.add("static const size_t max_depth = %d; /* template default Parse_Depth */" % parse_depth(hdr))
    thr = throw_rule(KINDMAP, HDR)
    dsl = hdr.slice_block("struct Depth_Counter")
    # constructor
    sl = hdr.slice_function("Depth_Counter(ChaiScript_Parser *t_parser)", after=dsl.ob)
    if not re.fullmatch(r"Depth_Counter\(ChaiScript_Parser \*t_parser\)\s*:\s*parser\(t_parser\)\s*", sl.sig_tail):
        raise ExtractionBreak("Depth_Counter constructor initializer list changed: %r" % sl.sig_tail)
    r = base_rules()
    r.add("R1.field", r"(?<![\w.>])parser->", "self->parser->", min_fire=2)
    c = chai2c.contracts_for(contracts, "Depth_Counter_ctor", prop)

    def pre(body):
        b, n = thr(body, "Depth_Counter_ctor")
        if n != 1:
            raise ExtractionBreak("Depth_Counter ctor: expected one throw")
        return "self->parser = t_parser; /* R9 ctor-initializer */" + b

    kb.emit_function("void Depth_Counter_ctor(Depth_Counter *self, Parser *t_parser)", sl, r, c.fn, c.loops,
                     "Depth_Counter_ctor", pre=pre)
    sl = hdr.slice_function("~Depth_Counter() noexcept", after=dsl.ob)
    r = base_rules()
    r.add("R1.field", r"(?<![\w.>])parser->", "self->parser->", min_fire=1)
    c = chai2c.contracts_for(contracts, "Depth_Counter_dtor", prop)
    kb.emit_function("void Depth_Counter_dtor(Depth_Counter *self)", sl, r, c.fn, c.loops, "Depth_Counter_dtor")


def emit_lexers(hdr, kb, contracts, prop):
    thr = throw_rule(KINDMAP, HDR)
    for cname, anchor, csig, autos, raii in LEXER_FUNCS:
        kb.add(csig + ";")
    for cname, anchor, csig, autos, raii in LEXER_FUNCS:
        sl = hdr.slice_function(anchor)
        rules = lexer_rules(autos)
        c = chai2c.contracts_for(contracts, cname, prop)

        def pre(body, cname=cname, raii=raii):
            b, n = thr(body, cname)
            if raii:
                b = raii_depth_counter(raii)(b)
            return b

        post = None
        if cname == "Parser_SkipWS":
            # For the block contract of SkipWS two reads of the same byte must be the same value.  cbmc treats every
            # dereference of the (havocked, in the loop step) cursor as a fresh read, so here the accessor calls are
            # replaced by the functional form of Position's PROVED contracts: operator* is buf[off] (NUL at end),
            # operator+ is offset + distance clamped to the length.
            def post(b):
                b = b.replace("Position_peek(Position_plus(&self->m_position, 1))", "PCHAR_AT(1)")
                return b.replace("(*Position_deref(&self->m_position))", "PCHAR_AT(0)")
        kb.emit_function(csig, sl, rules, c.fn, c.loops, cname, pre=pre, post=post, ghost=c.ghost)



# ------------------------------------------------------------------ K3 parse_internal

def emit_position_ctor(hdr, kb, contracts, prop):
    from gate import init_list_to_assignments
    psl = hdr.slice_block("struct Position")
    sl = hdr.slice_function("constexpr Position(const char *t_pos, const char *t_end) noexcept", after=psl.ob)
    if sl.body.strip():
        raise ExtractionBreak("Position(const char*, const char*) body no longer empty")
    init = init_list_to_assignments(sl.sig_tail)
    c = chai2c.contracts_for(contracts, "Position_ctor", prop)
    kb.emit_function("void Position_ctor(Position *self, const char *t_pos, const char *t_end)", sl, base_rules(), c.fn, c.loops,
                     "Position_ctor", pre=lambda b: init)


def parse_internal_rules():
    r = base_rules()
    mf = dict(min_fire=1)
    r.add("R9.pi.begin", r"const auto begin = t_input\.empty\(\) \? NULL : &t_input\.front\(\);", "const char *begin = (g_len == 0) ? NULL : &g_buf[0];", **mf)
    r.add("R9.pi.end", r"const auto end = begin == NULL \? NULL : begin \+ t_input\.size\(\);", "const char *end = begin == NULL ? NULL : begin + g_len;", **mf)
    r.add("R9.pi.pos", r"\bm_position = Position\(begin, end\);", "Position_ctor(&m_position, begin, end);", **mf)
    r.add("R9.pi.fname", r"\bm_filename = std::make_shared<std::string>\(std::move\(t_fname\)\);", "/* m_filename: not in this kernel */", **mf)
    r.add("R9.pi.shebang", r"\(t_input\.size\(\) > 1\) && \(t_input\[0\] == '#'\) && \(t_input\[1\] == '!'\)", "(g_len > 1) && (g_buf[0] == '#') && (g_buf[1] == '!')", **mf)
    r.add("R4.pi.statements", r"(?<![\w.>])Statements\(true\)", "Parser_Statements(self, true)", **mf)
    r.add("R9.pi.build", r"\bbuild_match<eval::File_AST_Node<Tracer>>\(0\);", "verif_build_match(self, 0);", **mf)
    r.add("R9.pi.noop", r"\bm_match_stack\.push_back\(chaiscript::make_unique<eval::AST_Node_Impl<Tracer>, eval::Noop_AST_Node<Tracer>>\(\)\);", "vvec_emplace_back(&m_match_stack);", **mf)
    r.add("R9.pi.front", r"\bAST_NodePtr retval\(std::move\(m_match_stack\.front\(\)\)\);", "VERIF_STD_PRE(m_match_stack.size > 0, \"vector::front on an empty vector\");", **mf)
    r.add("R9.pi.clear", r"\bm_match_stack\.clear\(\);", "vvec_clear(&m_match_stack);", **mf)
    r.add("R9.pi.ret", r"\breturn retval;", "return;", **mf)
    r.extend(lexer_rules([]))
    r.add("R1.member2", r"(?<![\w.>])(m_match_stack)\b", r"self->\1")
    return r


def emit_parse_internal(hdr, kb, contracts, prop):
    thr = throw_rule(KINDMAP, HDR)
    c = chai2c.contracts_for(contracts, "Parser_Statements", prop)
    kb.emit_stub("bool Parser_Statements(Parser *self, bool t_class_allowed)", c.fn, "Parser_Statements")
    c = chai2c.contracts_for(contracts, "verif_build_match", prop)
    kb.emit_stub("void verif_build_match(Parser *self, size_t t_match_start)", c.fn, "verif_build_match")
    sl = hdr.slice_function("AST_NodePtr parse_internal(const std::string &t_input, std::string t_fname)")
    c = chai2c.contracts_for(contracts, "Parser_parse_internal", prop)

    def pre(b):
        b2, n = thr(b, "Parser_parse_internal")
        if n < 1:
            raise ExtractionBreak("parse_internal: no 'Unparsed input' throw found")
        return b2

    kb.emit_function("void Parser_parse_internal(Parser *self)", sl, parse_internal_rules(), c.fn, c.loops, "Parser_parse_internal",
                     pre=pre, ghost=c.ghost)
    kb.add('void h_Parser_parse_internal(void) { Parser *p; Parser_parse_internal(p); VERIF_CANARY("parse_internal returns normally"); }')
    t = Target("Parser_parse_internal", "h_Parser_parse_internal",
               replace=["Parser_Statements", "verif_build_match", "Parser_Eol", "Position_inc"])
    t.expect_loops = True
    kb.targets.append(t)
    kb.add('void h_Position_ctor(void) { Position *p; const char *a; const char *b; Position_ctor(p, a, b); VERIF_CANARY("returns"); }')
    kb.targets.append(Target("Position_ctor", "h_Position_ctor"))
    kb.functions.append("Parser_Statements / verif_build_match (assumed contracts: the grammar above the lexers)")


def depth_counter_fact(hdr, kb):
    """supporting static fact (scan): Depth_Counter is only ever used as a named automatic
    object `Depth_Counter dc{this};` (a discarded temporary would count nothing), in at least as
    many grammar functions as on the pinned tree."""
    txt = chai2c.strip_comments(hdr.text)
    uses = [m.start() for m in re.finditer(r"\bDepth_Counter\b", txt)]
    good = len(re.findall(r"\bDepth_Counter dc\{this\};", txt))
    dsl = hdr.slice_block("struct Depth_Counter")
    inside = len([u for u in uses if dsl.start <= u <= dsl.cb])
    other = len(uses) - good - inside
    # every `bool X(...)` grammar function that calls another grammar function or SkipWS through
    # a capitalised sibling must start with the guard: approximated by the count
    # (how MANY functions must hold a guard is decided by kernel K13: every cycle of the grammar passes a Depth_Counter; a count
    # threshold here alarmed on the harmless removal of one guard whose neighbours are guarded)
    kb.static_facts.append(("Depth_Counter_only_used_as_named_guard_object", other == 0 and good >= 1,
                            "%d `Depth_Counter dc{this};` guards, %d other uses outside the struct definition" % (good, other)))


# which callees are replaced by their contracts when a function is enforced (others are
# tiny loop-free accessors that are proved on their own and inlined at call sites).
REPLACED = {"Position_inc", "Position_dec", "Position_plus", "Position_pluseq", "Position_minus", "Position_minuseq",
            "Parser_Symbol_", "Parser_Char_", "Parser_Eol_", "Parser_Eol", "Parser_SkipComment", "Parser_SkipWS",
            "Parser_read_exponent_and_suffix", "Parser_Keyword_"}


def callees_of(text, fname, universe):
    """names from `universe` called in the emitted definition of fname."""
    mm = None
    for cand in re.finditer(r"^[A-Za-z][^\n;{}]*\b%s\(" % re.escape(fname), text, re.M):
        nxt = re.search(r"[;{]", chai2c._mask(text[cand.end():]))
        if nxt and nxt.group(0) == "{":
            mm = cand
            end = cand.end() + nxt.end()
            break
    if not mm:
        raise ExtractionBreak("definition of %s not found in generated C" % fname)
    ob = end - 1
    cb = chai2c.match_brace(chai2c._mask(text), ob)
    body = text[ob:cb]
    return sorted(u for u in universe if u != fname and re.search(r"\b%s\(" % re.escape(u), body))


def lexer_targets(kb):
    text = kb.text()
    for cname, anchor, csig, autos, raii in LEXER_FUNCS:
        params = csig[csig.index("(") + 1:csig.rindex(")")]
        decls, args = [], []
        for p in params.split(","):
            p = p.strip()
            name = re.findall(r"\w+", p)[-1]
            decls.append(re.sub(r"\bconst\b\s*(?=\w+\s+\w+$)", "", p) + ";")
            args.append(name)
        kb.add("void h_%s(void) { %s %s(%s); VERIF_CANARY(\"%s returns normally\"); }"
               % (cname, nondet_bools(" ".join(decls)), cname, ", ".join(args), cname))
        # transitive closure through inlined (non-replaced) callees
        rep = set()
        seen = set()
        stack = [cname]
        allfn = set(REPLACED) | {f[0] for f in LEXER_FUNCS} | {f[0] for f in POSITION_FUNCS} | {"Depth_Counter_ctor", "Depth_Counter_dtor", "Position_peek"}
        while stack:
            f = stack.pop()
            if f in seen:
                continue
            seen.add(f)
            for g in callees_of(text, f, allfn):
                if g in REPLACED:
                    rep.add(g)
                else:
                    stack.append(g)
        t = Target(cname, "h_" + cname, replace=sorted(rep))
        t.expect_loops = kb.nloops.get(cname, 0) > 0
        kb.targets.append(t)
    if kb.prop == "C20":
        c = chai2c.contracts_for(load_contracts("K2_lexers.contracts"), "lemma_Eol_coords", kb.prop)
        kb.emit_stub("bool lemma_Eol_coords(Parser *self, bool t_eos)", c.fn, "lemma_Eol_coords", body=" return Parser_Eol_(self, t_eos); ")
        kb.add('void h_lemma_Eol_coords(void) { Parser *self; bool t_eos = verif_nondet_bool(); lemma_Eol_coords(self, t_eos); VERIF_CANARY("lemma_Eol_coords returns normally"); }')
        t = Target("lemma_Eol_coords", "h_lemma_Eol_coords", loops=False, unwind=4,
                   bounded_note="the line end is at most the two bytes CR LF: the loops of Symbol_ and operator+ are fully unwound (unwinding assertions on) - complete")
        t.complete = True
        kb.targets.append(t)
        kb.functions.append("lemma_Eol_coords")
    for cname in ("Static_String_size", "Static_String_c_str"):
        kb.add("void h_%s(void) { Static_String *s; %s(s); VERIF_CANARY(\"returns\"); }" % (cname, cname))
        kb.targets.append(Target(cname, "h_" + cname))
    kb.add("void h_Depth_Counter_ctor(void) { Depth_Counter *d; Parser *p; Depth_Counter_ctor(d, p); VERIF_CANARY(\"returns\"); }")
    kb.targets.append(Target("Depth_Counter_ctor", "h_Depth_Counter_ctor"))
    kb.add("void h_Depth_Counter_dtor(void) { Depth_Counter *d; Depth_Counter_dtor(d); VERIF_CANARY(\"returns\"); }")
    kb.targets.append(Target("Depth_Counter_dtor", "h_Depth_Counter_dtor"))


def parser_data(kb):
    import native
    exe = native.build("gen_parser_data", os.path.join(VERIF, "native", "gen_parser_data.cpp"))
    rc, out, err = native.run(exe)
    if rc != 0:
        raise ExtractionBreak("gen_parser_data failed")
    kb.native_data.append("m_alphabet[12][256]: printed by native/gen_parser_data.cpp from ChaiScript_Parser::m_alphabet "
                          "(constexpr build_alphabet()) compiled against /repo/include")
    return out.decode()



def build_probe(kb):
    """native probe: real functions from /repo/include + the generated C twin, ASan."""
    import hashlib
    import subprocess
    import native
    os.makedirs(native.CACHE, exist_ok=True)
    text = kb.text()
    key = hashlib.sha256(text.encode()).hexdigest()[:16]
    cfile = os.path.join(native.CACHE, "parser_twin-%s.c" % key)
    ofile = cfile[:-2] + ".o"
    if not os.path.exists(ofile):
        for f in os.listdir(native.CACHE):
            if f.startswith("parser_twin-"):
                os.remove(os.path.join(native.CACHE, f))
        with open(cfile, "w") as f:
            f.write(text)
        r = subprocess.run(["gcc", "-std=gnu11", "-O1", "-g", "-fsanitize=address", "-w", "-I", os.path.join(VERIF, "stubs"),
                            "-DVERIF_ALLOWED=0", "-c", cfile, "-o", ofile], stderr=subprocess.PIPE)
        if r.returncode != 0:
            raise ExtractionBreak("native build of the generated parser C failed: " + r.stderr.decode()[-1500:])
    return native.build("probe_parser", os.path.join(VERIF, "native", "probe_parser.cpp"),
                        flags=["-fno-access-control", "-fsanitize=address", "-O1", "-g", ofile], extra_key=key)


def probe_search(kb, fn, maxlen=3, twin=False, limit=3):
    import subprocess
    exe = build_probe(kb)
    env = dict(os.environ, ASAN_OPTIONS="detect_leaks=0:abort_on_error=1")
    if kb.prop == "C20":
        env["PROBE_C20"] = "1"
    if twin:
        env["PROBE_TWIN"] = "1"
    r = subprocess.run([exe, fn, "search", str(maxlen), str(limit)], env=env, stdout=subprocess.PIPE, stderr=subprocess.PIPE,
                       timeout=900)
    import json
    cases = []
    for line in r.stdout.decode("utf-8", "replace").splitlines():
        try:
            cases.append(json.loads(line))
        except ValueError:
            pass
    mm = re.search(r"(\d+) cases", r.stderr.decode("utf-8", "replace"))
    return cases, int(mm.group(1)) if mm else 0


def replay_fn(kb, t, pr, vals, order, rec):
    """Find a failing input for the enforced function on the REAL code: the native probe
    evaluates the same postconditions (and memory safety under ASan) on all buffers of
    length <= 3 over a 29-byte alphabet, every cursor offset, every argument choice."""
    fn = t.fn
    known = {f[0] for f in POSITION_FUNCS} | {f[0] for f in LEXER_FUNCS}
    if fn not in known or fn == "Parser_char_in_alphabet":
        return {"reproduced": False, "note": "no native probe for " + fn}
    cases, n = probe_search(kb, fn, 3)
    cases = [c for c in cases if not c.get("violated", "").startswith("TWIN")]
    return {"reproduced": bool(cases), "probe": "native/probe_parser.cpp (real headers, ASan)", "cases_tried": n,
            "failing_cases": cases[:3],
            "how_to_rerun": "bin/check %s --replay <this file>" % kb.prop}


def replay_file(rec):
    import subprocess
    nr = rec.get("native_replay") or {}
    cases = nr.get("failing_cases") or []
    if not cases:
        print("replay: no failing input recorded for obligation %s (%s)" % (rec.get("obligation"), rec.get("description")))
        return 2
    kb = build(rec["property"], "quick")
    exe = build_probe(kb)
    env = dict(os.environ, ASAN_OPTIONS="detect_leaks=0")
    if rec["property"] == "C20":
        env["PROBE_C20"] = "1"
    rc = 0
    for c in cases:
        r = subprocess.run([exe, c["fn"], "case", c["buf_hex"] or "", str(c["off"]), str(c["line"]), str(c["col"]), str(c["lastcol"]),
                            str(c["arg"])], env=env, stdout=subprocess.PIPE, stderr=subprocess.PIPE)
        out = r.stdout.decode()
        if r.returncode != 0:
            rc = 1
            print("REPRODUCED on real code: %s buf=%s off=%s arg=%s -> %s" % (c["fn"], c["buf_hex"], c["off"], c["arg"],
                  out.strip() or ("process died: " + " / ".join(l for l in r.stderr.decode().splitlines() if "ERROR" in l or "SUMMARY" in l)[:400])))
        else:
            print("not reproduced: %s buf=%s off=%s" % (c["fn"], c["buf_hex"], c["off"]))
    return rc


def twin_check(kb, maxlen=3):
    """extractor faithfulness (not proof): generated C vs real code on the enumerated corpus."""
    bad = []
    total = 0
    for fn in [f[0] for f in POSITION_FUNCS if f[0] not in ("Position_eq", "Position_ne")] + \
              [f[0] for f in LEXER_FUNCS if f[0] != "Parser_char_in_alphabet"]:
        cases, n = probe_search(kb, fn, maxlen, twin=True)
        total += n
        bad += [c for c in cases]
    return bad, total

def build(prop, tier="quick"):
    kb = KernelBuild("parser", prop)
    kb.defines.append("VERIF_ALLOWED=KBIT(K_eval_error)")
    hdr = chai2c.Header(HDR)
    kb.add(KERNEL_HEADER)
    c1 = load_contracts("K1_position.contracts")
    c2 = load_contracts("K2_lexers.contracts")
    emit_position(hdr, kb, c1, prop)
    kb.add("/* R3 helper: dereference of a temporary cursor (`*(m_position + 1)`) */\n"
           "static inline char Position_peek(Position p) { return *Position_deref(&p); }")
    kb.add("#include \"verif_stl.h\"\ntypedef struct Parser { Position m_position; size_t m_current_parse_depth; vvec m_match_stack; } Parser;")
    kb.add(alphabet_enum(hdr, kb))
    kb.add(parser_data(kb))
    emit_static_string(kb, c2, prop)
    kb.add(static_strings(hdr, kb))
    emit_depth_counter(hdr, kb, c2, prop)
    emit_lexers(hdr, kb, c2, prop)
    position_targets(kb)
    lexer_targets(kb)
    if prop == "C01":
        c3 = load_contracts("K3_parse_internal.contracts")
        emit_position_ctor(hdr, kb, c3, prop)
        emit_parse_internal(hdr, kb, c3, prop)
        depth_counter_fact(hdr, kb)
    kb.assumptions += [
        "A4: input buffers are shorter than 2^31-2 bytes (line/col int arithmetic is not overflow-checked)",
        "A5: std::tolower behaves as in the C locale (ASCII case fold)",
        "A2: C++ runs the destructor of Depth_Counter on every exit from the enclosing function",
        "throw encoding: a throw ends the path after its kind is checked against the allowed set (DESIGN 3.1)",
    ]
    return kb
