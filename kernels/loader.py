"""Kernel K10: ChaiScript_Basic::skip_bom and load_file (chaiscript_engine.hpp) over the
std::ifstream model `vifs`.  Property C19 (file content part)."""
import re

from common import (nondet_bools, KernelBuild, Target, Rules, ExtractionBreak, base_rules, load_contracts, throw_rule, chai2c)

EN = "include/chaiscript/language/chaiscript_engine.hpp"
KINDMAP = {"file_not_found_error": "K_file_not_found_error"}

HEADER = r'''
#define VERIF_ALLOWED KBIT(K_file_not_found_error)
#include "verif_stl.h"
#include <string.h>
int verif_thrown;
size_t verif_k; /* ghost: an arbitrary byte index (never assigned: stands for "for all k") */
#define FILE_REQ(f) (__CPROVER_is_fresh(f, sizeof(*(f))) && (f)->len <= 1000000 && __CPROVER_is_fresh((f)->data, (f)->len) && (f)->pos <= (f)->len)
/* bytes a read of n delivers: nothing on a stream that is not good(), else what is left, at most n;
 * the bytes of the destination beyond that count are outside read's frame (they keep their values) */
#define READ_COUNT(f, n) (((f)->failbit || (f)->eofbit) ? (size_t)0 : ((size_t)(n) <= (f)->len - (f)->pos ? (size_t)(n) : (f)->len - (f)->pos))
#define HAS_BOM(f) ((f)->len >= 3 && (f)->data[0] == '\xef' && (f)->data[1] == '\xbb' && (f)->data[2] == '\xbf')
void vifs_read(vifs *f, char *buf, long n);
void vifs_seekg(vifs *f, long p);
long vifs_tellg(vifs *f);
void vifs_open_ate(vifs *f);
size_t verif_strnlen(const char *s, size_t n);
'''


def rules():
    r = base_rules()
    r.add("R9.ifs.read", r"\binfile\.read\(", "vifs_read(infile, ")
    r.add("R9.ifs.seekg_beg", r"\binfile\.seekg\(0, std::ios::beg\);", "vifs_seekg(infile, 0);")
    r.add("R9.ifs.seekg", r"\binfile\.seekg\(", "vifs_seekg(infile, ")
    r.add("R9.ifs.clear", r"\binfile\.clear\(\);", "vifs_clear(infile);")
    r.add("R9.ifs.tellg", r"\bauto size = infile\.tellg\(\);", "long size = vifs_tellg(infile);")
    r.add("R9.ifs.open", r"\binfile\.is_open\(\)", "vifs_is_open(infile)")
    r.add("R9.ifs.ctor", r"std::ifstream infile\(t_filename\.c_str\(\), std::ios::in \| std::ios::ate \| std::ios::binary\);", "vifs_open_ate(infile);")
    r.add("R6.streamsize", r"\(std::streamsize\)", "(long)")
    r.add("R6.streampos0", r"\bstd::streampos\((\d+)\)", r"\1")
    r.add("R0.assert", r"\bassert\(", "VERIF_CASSERT(")
    r.add("R9.str.empty", r"\breturn std::string\(\);", "{ out->len = 0; return; }")
    r.add("R9.vec.ctor", r"std::vector<char> v\(\(size_t\)\(size\)\);", "char *v = out->data; out->len = (size_t)(size); VERIF_STD_PRE(out->len <= out->cap, \"ghost result buffer large enough\");")
    r.add("R9.str.range", r"\breturn std::string\(v\.begin\(\), v\.end\(\)\);", "return;")
    # the same buffer as a std::string(n, '\\0'), and the two ways of returning it: as the string itself, or through
    # c_str() / data() - i.e. a conversion from const char* that stops at the first NUL byte ([string.cons])
    r.add("R9.str.ctor", r"std::string v\(\(size_t\)\(size\), '\\0'\);", "char *v = out->data; out->len = (size_t)(size); VERIF_STD_PRE(out->len <= out->cap, \"ghost result buffer large enough\");")
    r.add("R9.str.self", r"\breturn v;", "return;")
    r.add("R9.str.cstr", r"\breturn (?:std::string\()?v\.(?:c_str|data)\(\)\)?;", "out->len = verif_strnlen(v, out->len); return;")
    r.add("R4.skip_bom", r"(?<![\w.>])skip_bom\(infile\)", "skip_bom(infile)")
    return r


def build(prop, tier="quick"):
    kb = KernelBuild("loader", prop)
    contracts = load_contracts("K10_loader.contracts")
    kb.add(HEADER)
    en = chai2c.Header(EN)
    thr = throw_rule(KINDMAP, EN)

    def C(name):
        return chai2c.contracts_for(contracts, name, prop)

    for stub in ("vifs_read", "vifs_seekg", "vifs_tellg", "vifs_open_ate"):
        pass
    c = C("vifs_read")
    kb.emit_stub("void vifs_read(vifs *f, char *buf, long n)", c.fn, "vifs_read")
    c = C("vifs_seekg")
    kb.emit_stub("void vifs_seekg(vifs *f, long p)", c.fn, "vifs_seekg")
    c = C("vifs_tellg")
    kb.emit_stub("long vifs_tellg(vifs *f)", c.fn, "vifs_tellg")
    c = C("vifs_open_ate")
    kb.emit_stub("void vifs_open_ate(vifs *f)", c.fn, "vifs_open_ate")
    c = C("verif_strnlen")
    kb.emit_stub("size_t verif_strnlen(const char *s, size_t n)", c.fn, "verif_strnlen")
    kb.add("bool skip_bom(vifs *infile);")
    sl = en.slice_function("static bool skip_bom(std::ifstream &infile)")
    c = C("skip_bom")
    kb.emit_function("bool skip_bom(vifs *infile)", sl, rules(), c.fn, c.loops, "skip_bom", ghost=c.ghost)
    sl = en.slice_function("static std::string load_file(const std::string &t_filename)")
    c = C("load_file")

    def pre(b):
        b2, n = thr(b, "load_file")
        if n != 1:
            raise ExtractionBreak("load_file: expected one throw")
        return b2

    kb.emit_function("void load_file(vifs *infile, vstr *out)", sl, rules(), c.fn, c.loops, "load_file", pre=pre, ghost=c.ghost)
    for need in ("R9.ifs.ctor", "R9.ifs.tellg", ("R9.vec.ctor", "R9.str.ctor"), ("R9.str.range", "R9.str.self", "R9.str.cstr"), "R9.str.empty", "R9.ifs.read"):
        alts = need if isinstance(need, tuple) else (need,)
        if sum(kb.rules_fired.get(a, 0) for a in alts) < 1:
            raise ExtractionBreak("load_file/skip_bom: rule %s did not fire" % "|".join(alts))
    stubs = ["vifs_read", "vifs_seekg", "vifs_tellg", "vifs_open_ate"]
    lf_extra = ["verif_strnlen"] if kb.rules_fired.get("R9.str.cstr", 0) else []  # a callee can only be replaced where it is called
    kb.add('void h_skip_bom(void) { vifs *f; skip_bom(f); VERIF_CANARY("skip_bom returns normally"); }')
    kb.targets.append(Target("skip_bom", "h_skip_bom", replace=stubs))
    kb.add('void h_load_file(void) { vifs *f; vstr *o; load_file(f, o); VERIF_CANARY("load_file returns normally"); }')
    kb.targets.append(Target("load_file", "h_load_file", replace=stubs + ["skip_bom"] + lf_extra))
    model_fact(kb)
    kb.functions += ["vifs_read/vifs_seekg/vifs_tellg/vifs_open_ate (assumed contracts: model of std::ifstream)"]
    kb.assumptions += [
        "std::ifstream model vifs (verif_stl.h + contracts/K10_loader.contracts): short read sets eofbit|failbit with gcount = bytes left; "
        "seekg clears eofbit then is a no-op while fail(); read on a non-good stream sets failbit and delivers nothing; tellg is -1 while fail() "
        "- assumed contracts, this design's reading of [istream.unformatted] (observed on libstdc++ during design)",
        "files are at most 1000000 bytes in the contract (the behaviour depends on the length only through len < 3 and the BOM test)",
        "the file is not modified between tellg() and read()",
    ]
    kb.unverified += ["use()'s bookkeeping (m_used_files, search paths, locks) and eval_file's call into the parser",
                      "shebang skipping in parse_internal (cursor motion only, kernel K3)"]
    return kb


def build_probe():
    import native
    import os
    from common import VERIF
    return native.build("probe_loader", os.path.join(VERIF, "native", "probe_loader.cpp"), flags=["-fno-access-control", "-O0"])


def _run(args):
    import json
    import subprocess
    import tempfile
    import shutil
    d = tempfile.mkdtemp(prefix="vloader-")
    try:
        r = subprocess.run([build_probe(), args[0], d] + args[1:], stdout=subprocess.PIPE, stderr=subprocess.PIPE, timeout=300)
    finally:
        shutil.rmtree(d, ignore_errors=True)
    cases = []
    for line in r.stdout.decode("utf-8", "replace").splitlines():
        try:
            cases.append(json.loads(line))
        except ValueError:
            pass
    return r.returncode, cases, r.stderr.decode()[-200:]


def replay_fn(kb, t, pr, vals, order, rec):
    rc, cases, err = _run(["search"])
    return {"reproduced": bool(cases), "probe": "native/probe_loader.cpp (real ChaiScript_Basic::load_file on real files)",
            "failing_cases": cases[:4], "probe_summary": err}


def replay_file(rec):
    cases = (rec.get("native_replay") or {}).get("failing_cases") or []
    if not cases:
        print("replay: no failing input recorded")
        return 2
    rc = 0
    for c in cases:
        r, cs, err = _run(["case", c.get("file_hex", "")])
        if r != 0:
            rc = 1
            print("REPRODUCED on real code: %s" % cs)
        else:
            print("not reproduced: %r" % c)
    return rc


def model_fact(kb):
    rc, cases, err = _run(["model"])
    kb.static_facts.append(("assumed std::ifstream model agrees with libstdc++ on the clauses used (native probe, files of length 0..4)",
                            rc == 0, err.strip()))
