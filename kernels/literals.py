"""Kernel K5a: integer literal typing - ChaiScript_Parser::buildInt (chaiscript_parser.hpp).
Property C16 (first clause): a literal evaluates to exactly the written value in the first type
of the C++ literal-typing sequence ([lex.icon] table) able to hold it.

std::stoll / std::stoull are assumed contracts over a ghost 128-bit TRUE value of the digit run
([string.conversions]: the value if representable, std::out_of_range otherwise); the
try / catch (const std::out_of_range &) ladder is rewritten into status flags and gotos (R9)."""
import re

from common import (KernelBuild, Target, Rules, ExtractionBreak, base_rules, load_contracts, chai2c)

PH = "include/chaiscript/language/chaiscript_parser.hpp"

HEADER = r'''
#include "verif_stl.h"
int verif_thrown;
typedef struct vsv { const char *data; size_t len; } vsv;
/* ghost: the mathematical value of the literal's digit run in its base: verif_true_value if it is below
 * 2^64, otherwise verif_true_big is set (cbmc's 128-bit integers gave inconsistent comparisons inside contracts) */
uint64_t verif_true_value;
_Bool verif_true_big;
#define FITS(max) (!verif_true_big && verif_true_value <= (uint64_t)(max))
enum ltag { L_none = 0, L_int, L_uint, L_long, L_ulong, L_llong, L_ullong };
typedef struct LRes { int tag; uint64_t val; } LRes;
#define IS_SUF(c) ((c) == 'u' || (c) == 'U' || (c) == 'l' || (c) == 'L')
#define IS_U(c) ((c) == 'u' || (c) == 'U')
#define IS_L(c) ((c) == 'l' || (c) == 'L')
/* the last k-th character (1 = last), 0 when the text is shorter */
static inline char LASTC(vsv s, size_t k) { return s.len >= k ? s.data[s.len - k] : (char)0; }
/* number of trailing suffix characters, for texts with at most three of them (every suffix C++
 * allows - u l ul lu ll ull llu - has at most three) */
static inline int NSUF(vsv s) { return !IS_SUF(LASTC(s, 1)) ? 0 : !IS_SUF(LASTC(s, 2)) ? 1 : !IS_SUF(LASTC(s, 3)) ? 2 : 3; }
static inline int SUF_U(vsv s) { int n = NSUF(s); return (n >= 1 && IS_U(LASTC(s, 1))) || (n >= 2 && IS_U(LASTC(s, 2))) || (n >= 3 && IS_U(LASTC(s, 3))); }
static inline int SUF_L(vsv s) { int n = NSUF(s); return ((n >= 1 && IS_L(LASTC(s, 1))) ? 1 : 0) + ((n >= 2 && IS_L(LASTC(s, 2))) ? 1 : 0) + ((n >= 3 && IS_L(LASTC(s, 3))) ? 1 : 0); }
/* [lex.icon] table: the candidate types in order int, unsigned int, long, unsigned long, long long,
 * unsigned long long; a signed type is a candidate unless the suffix has u, an unsigned type is a
 * candidate if the suffix has u or the literal is not decimal; l / ll exclude the shorter types.
 * SPEC_TAG is the first candidate that can represent v, L_none if there is none. */
static inline int SPEC_TAG(int dec, int u, int l) {
  return (!u && l == 0 && FITS(INT_MAX)) ? L_int
       : ((u || !dec) && l == 0 && FITS(UINT_MAX)) ? L_uint
       : (!u && l <= 1 && FITS(LONG_MAX)) ? L_long
       : ((u || !dec) && l <= 1 && FITS(ULONG_MAX)) ? L_ulong
       : (!u && FITS(LLONG_MAX)) ? L_llong
       : ((u || !dec) && FITS(ULLONG_MAX)) ? L_ullong : L_none;
}
_Bool verif_sto_oor; /* ghost: the last std::sto* call threw std::out_of_range */
long long verif_lit_stoll(vsv s, int base);
unsigned long long verif_lit_stoull(vsv s, int base);
'''

LIMITS = {("int", "min"): "INT_MIN", ("int", "max"): "INT_MAX", ("unsigned int", "min"): "0u", ("unsigned int", "max"): "UINT_MAX",
          ("long", "min"): "LONG_MIN", ("long", "max"): "LONG_MAX", ("unsigned long", "min"): "0ul", ("unsigned long", "max"): "ULONG_MAX",
          ("long long", "min"): "LLONG_MIN", ("long long", "max"): "LLONG_MAX", ("unsigned long long", "min"): "0ull",
          ("unsigned long long", "max"): "ULLONG_MAX"}


def trycatch_to_goto(body, ctx):
    """R9: try { ... } catch (const std::out_of_range &) { ... }  ->  blocks with a label.  Sound only if
    every throw site inside the try block is a stub call followed by `if (verif_oor) goto verif_catch_k;`
    (added by the stoll/stoull rules, which are must-fire once per try block)."""
    k = 0
    while True:
        m = chai2c._mask(body)
        tries = list(re.finditer(r"\btry\s*\{", m))
        if not tries:
            break
        t = tries[-1]  # innermost-last first
        k += 1
        ob = t.end() - 1
        cb = chai2c.match_brace(m, ob)
        cm = re.match(r"\s*catch\s*\(const std::out_of_range &\)\s*\{", m[cb + 1:])
        if not cm:
            raise ExtractionBreak("%s: try block without `catch (const std::out_of_range &)`" % ctx)
        cob = cb + 1 + cm.end() - 1
        ccb = chai2c.match_brace(m, cob)
        if re.match(r"\s*catch\b", m[ccb + 1:]):
            raise ExtractionBreak("%s: more than one handler on a try block" % ctx)
        tbody = body[ob + 1:cb]
        if tbody.count("VERIF_GOTO_CATCH") != 1:
            raise ExtractionBreak("%s: a try block must contain exactly one std::stoll/std::stoull call" % ctx)
        tbody = tbody.replace("VERIF_GOTO_CATCH", "goto verif_catch_%d" % k)
        body = (body[:t.start()] + "{" + tbody + " goto verif_end_%d; } verif_catch_%d: {" % (k, k) + body[cob + 1:ccb] + "} verif_end_%d: ;" % k + body[ccb + 1:])
    return body, k


def build(prop, tier="quick"):
    kb = KernelBuild("literals", prop)
    contracts = load_contracts("K5a_literals.contracts")
    kb.add(HEADER)
    ph = chai2c.Header(PH)

    def C(name):
        return chai2c.contracts_for(contracts, name, prop)

    for stub, sig in (("verif_lit_stoll", "long long verif_lit_stoll(vsv s, int base)"), ("verif_lit_stoull", "unsigned long long verif_lit_stoull(vsv s, int base)")):
        c = C(stub)
        kb.emit_stub(sig, c.fn, stub)
    kb.functions.append("verif_lit_stoll / verif_lit_stoull (assumed contracts: [string.conversions] over the ghost true value)")

    sl = ph.slice_function("static Boxed_Value buildInt(const int base, std::string_view t_val, const bool prefixed)")
    r = Rules("buildInt")
    r.add("R8.auto.i", r"\bauto i = t_val\.size\(\);", "size_t i = t_val.len;", min_fire=1)
    r.add("R9.sv.idx", r"\bt_val\[([^\[\]]+)\]", r"t_val.data[\1]")
    r.add("R9.sv.prefix", r"\bt_val\.remove_prefix\((\d+)\);",
          '{ VERIF_STD_PRE(t_val.len >= \\1, "string_view::remove_prefix(n): n <= size()"); t_val.data += \\1; t_val.len -= \\1; }')
    r.add("R9.stoll", r"\bauto u = std::stoll\(std::string\(t_val\), NULL, base\);",
          "long long u = verif_lit_stoll(t_val, base); if (verif_sto_oor) VERIF_GOTO_CATCH;", min_fire=1)
    r.add("R9.stoull", r"\bauto u = std::stoull\(std::string\(t_val\), NULL, base\);",
          "unsigned long long u = verif_lit_stoull(t_val, base); if (verif_sto_oor) VERIF_GOTO_CATCH;", min_fire=1)
    r.add("R6.limits", r"\bstd::numeric_limits<((?:unsigned )?(?:int|long long|long))>::(min|max)\(\)", lambda m: LIMITS[(m.group(1), m.group(2))])
    pre_rules = Rules("buildInt-pre")
    # the boxed type is the static_cast's target type, taken from the source text (cbmc's _Generic does not
    # tell long from long long); a const_var(...) of any other shape is outside the rule set
    tags = {"int": "L_int", "unsigned int": "L_uint", "long": "L_long", "unsigned long": "L_ulong", "long long": "L_llong", "unsigned long long": "L_ullong"}
    pre_rules.add("R9.const_var_cast", r"\breturn const_var\(static_cast<((?:unsigned )?(?:int|long long|long))>\(u\)\);",
                  lambda m: "{ out->tag = %s; out->val = (uint64_t)(%s)(u); return; }" % (tags[m.group(1)], m.group(1)), min_fire=6)
    pre_rules.add("R9.const_var_max", r"\breturn const_var\(std::numeric_limits<long long>::max\(\)\);",
                  "{ out->tag = L_llong; out->val = (uint64_t)LLONG_MAX; return; }")
    pre_rules.extend(base_rules())  # nullptr -> NULL, static_cast, ...
    pre_rules.extend(r)

    def post(b):
        b2, k = trycatch_to_goto(b, "buildInt")
        if k < 1:
            raise ExtractionBreak("buildInt: no try block found")
        return b2

    c = C("buildInt")
    kb.emit_function("void buildInt(const int base, vsv t_val, const bool prefixed, LRes *out)", sl, pre_rules, c.fn, _unwound_loops(sl), "buildInt",
                     post=post, ghost=c.ghost)
    kb.add('void h_buildInt(void) { int b; vsv s; bool p = verif_nondet_bool(); LRes *o; buildInt(b, s, p, o); VERIF_CANARY("buildInt returns normally"); }')
    t = Target("buildInt", "h_buildInt", replace=["verif_lit_stoll", "verif_lit_stoull"], loops=False, unwind=5, objbits=8,
               bounded_note="the suffix scan runs at most 4 times under the contract's precondition (at most three suffix characters): unwound 5 times "
                            "with unwinding assertions on - complete under that precondition, not a bounded stand-in")
    t.complete = True
    kb.targets.append(t)
    kb.static_facts.append(callsite_fact(ph))
    if tier == "thorough":
        rc, cases, err = _run_probe()
        kb.static_facts.append(("native battery (thorough tier): probe_literals.cpp - 700 integer literals typed and valued per the C++ table on the real engine",
                                rc == 0 and not cases, (err.strip() + " " + str(cases[:3]))[:400]))
    kb.assumptions += [
        "std::stoll / std::stoull: assumed contracts per [string.conversions] over a ghost 128-bit true value of the digit run "
        "(return it if representable in the result type, otherwise throw std::out_of_range); the digit run is not empty (the lexers guarantee a digit)",
        "the literal's text (prefix, digits, suffix) has at most 64 characters - the result depends on the text only through its last four "
        "characters and the ghost value; with an unbounded text cbmc's symbolic execution did not finish",
        "the literal has at most three suffix characters (u l ul lu ll ull llu are all the suffixes C++ has); LP64 type widths",
        "literals whose value fits no type of their sequence are outside the property (the code answers unsigned long / LLONG_MAX there)",
    ]
    kb.unverified += ["floating literals: parse_num<floating>'s ulp bound (std::pow, rounding analysis) - not within CBMC's reach",
                      "the digit run's value itself (std::stoll is assumed, not verified)",
                      "Num(): which lexer recognised the literal (Hex_/Binary_/Float_/IntSuffix_ are under C01/C20 strength contracts only)"]
    return kb


def _unwound_loops(sl):
    n = len(chai2c.find_loops(chai2c.eval_preproc(sl.body, {"__GNUC__"})))
    return {k + 1: [] for k in range(n)}


def callsite_fact(ph):
    txt = chai2c.strip_comments(ph.text)
    calls = re.findall(r"\bbuildInt\((\d+), (\w+), (true|false)\)", txt)
    want = {("16", "true"), ("2", "true"), ("8", "false"), ("10", "false")}
    got = {(b, p) for b, _, p in calls}
    return ("buildInt is called with (base, prefixed) in {(16,true),(2,true),(8,false),(10,false)} only (the contract's precondition)",
            got == want and len(calls) == 4, "call sites: %s" % sorted(calls))


# ---- native replay: integer literals through the real engine against the [lex.icon] table
def build_probe():
    import native
    import os
    from common import VERIF
    return native.build("probe_literals", os.path.join(VERIF, "native", "probe_literals.cpp"))


def _run_probe(timeout=900):
    import json
    import subprocess
    r = subprocess.run([build_probe(), "search"], stdout=subprocess.PIPE, stderr=subprocess.PIPE, timeout=timeout)
    cases = []
    for line in r.stdout.decode("utf-8", "replace").splitlines():
        try:
            cases.append(json.loads(line))
        except ValueError:
            pass
    return r.returncode, cases, r.stderr.decode("utf-8", "replace")[-300:]


def replay_fn(kb, t, pr, vals, order, rec):
    rc, cases, err = _run_probe()
    return {"reproduced": bool(cases), "probe": "native/probe_literals.cpp (real engine: 4 bases x 13 suffixes x 14 boundary values, type and value "
            "against the C++ literal-typing table)", "failing_cases": cases[:6], "probe_summary": err.strip()}


def replay_file(rec):
    cases = (rec.get("native_replay") or {}).get("failing_cases") or []
    if not cases:
        print("replay: no failing input recorded; failed obligation: %s :: %s" % (rec.get("obligation"), rec.get("description")))
        return 2
    rc, cs, err = _run_probe()
    if rc != 0:
        print("REPRODUCED on real code: %s" % cs[:6])
        return 1
    print("not reproduced")
    return 0
