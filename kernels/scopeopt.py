"""Kernel K7b: the optimizer's licence to drop a block's scope (properties C09 and C04).
optimizer::contains_var_decl_in_scope (chaiscript_optimizer.hpp) decides whether optimizer::Block may turn a
Block into a Scopeless_Block.  The set of node types that declare a name in the CURRENT scope is derived on
every run from chaiscript_eval.hpp (nodes whose eval calls t_ss.add_object without opening a scope of their
own first) - the specification does not come from the optimizer."""
import re

from common import (KernelBuild, Target, Rules, ExtractionBreak, base_rules, load_contracts, chai2c)

OP = "include/chaiscript/language/chaiscript_optimizer.hpp"
EV = "include/chaiscript/language/chaiscript_eval.hpp"
CM = "include/chaiscript/language/chaiscript_common.hpp"

HEADER = r'''
#include "verif_stl.h"
int verif_thrown;
/* the syntax tree: nodes are ids; type, number of children and children are uninterpreted functions */
int __CPROVER_uninterpreted_ident(int node);
size_t __CPROVER_uninterpreted_child_count(int node);
int __CPROVER_uninterpreted_child_at(int node, size_t i);
_Bool __CPROVER_uninterpreted_rec(int node); /* the answer of contains_var_decl_in_scope for a node (recursive calls) */
#ifdef VERIF_CBMC
#define IDENT(n) __CPROVER_uninterpreted_ident(n)
#define CC(n) __CPROVER_uninterpreted_child_count(n)
#define CA(n, i) __CPROVER_uninterpreted_child_at((n), (i))
#define REC(n) __CPROVER_uninterpreted_rec(n)
#else
#define IDENT(n) 0
#define CC(n) 0
#define CA(n, i) 0
#define REC(n) 0
#endif
size_t verif_k; /* ghost: an arbitrary child index */
_Bool contains_var_decl_in_scope_rec(int node);
'''


def declaring_nodes():
    """node types whose eval declares a name in the scope that is current when the node is reached"""
    ev = chai2c.Header(EV)
    txt = chai2c.strip_comments(ev.text)
    found = {}
    for mm in re.finditer(r"\bstruct (\w+)_AST_Node\b[^;{]*\{", txt):
        ob = mm.end() - 1
        try:
            cb = chai2c.match_brace(chai2c._mask(txt), ob)
        except chai2c.ExtractionBreak:
            continue
        body = txt[ob:cb]
        pos = body.find("t_ss.add_object(")
        if pos < 0:
            continue
        own = re.search(r"\bScope_Push_Pop\b", body[:pos]) is not None
        found[mm.group(1)] = own
    decl = sorted(k for k, own in found.items() if not own)
    return decl, found


def build(prop, tier="quick"):
    kb = KernelBuild("scopeopt", prop)
    contracts = load_contracts("K7b_scopeopt.contracts")
    kb.add(HEADER)
    op = chai2c.Header(OP)
    cm = chai2c.Header(CM)
    es = cm.slice_block("enum class AST_Node_Type")
    names = re.findall(r"\b([A-Z]\w*)\b", chai2c.strip_comments(es.body))
    if "Var_Decl" not in names or "Block" not in names:
        raise ExtractionBreak("enum class AST_Node_Type not understood")
    kb.add("enum { " + ", ".join("T_%s" % n for n in names) + " }; /* extracted from %s */" % es.where())
    decl, found = declaring_nodes()
    if not decl or any(d not in names for d in decl):
        raise ExtractionBreak("declaring node types not understood: %r" % (found,))
    kb.add("/* derived from chaiscript_eval.hpp: %s */\n#define DECLARES(n) (%s)" % (found, " || ".join("IDENT(n) == T_%s" % d for d in decl)))
    kb.native_data.append("node types declaring a name in the current scope (scan of chaiscript_eval.hpp): %s; with a scope of their own: %s"
                          % (decl, sorted(k for k, own in found.items() if own)))
    kb.add("/* nodes that open a scope of their own for their children */\n#define OWN_SCOPE(n) (IDENT(n) == T_Block || IDENT(n) == T_For || IDENT(n) == T_Ranged_For)")

    def C(name):
        return chai2c.contracts_for(contracts, name, prop)

    c = C("contains_var_decl_in_scope_rec")
    kb.emit_stub("_Bool contains_var_decl_in_scope_rec(int node)", c.fn, "contains_var_decl_in_scope_rec")
    kb.functions.append("contains_var_decl_in_scope_rec (the recursive call, by its own contract: induction hypothesis)")
    sl = op.slice_function("bool contains_var_decl_in_scope(const eval::AST_Node_Impl<T> &node) noexcept")
    r = Rules("scopeopt")
    r.add("R7.type", r"\bAST_Node_Type::(\w+)", r"T_\1", min_fire=1)
    r.add("R9.ident", r"\b(node|child)\.identifier\b", r"IDENT(\1)", min_fire=1)
    r.add("R8.num", r"\bconst auto num = child_count\(node\);", "const size_t num = CC(node);", min_fire=1)
    r.add("R8.child", r"\bconst auto &child = child_at\(node, i\);", "const int child = CA(node, i);", min_fire=1)
    r.add("R4.rec", r"(?<![\w.>])contains_var_decl_in_scope\(child\)", "contains_var_decl_in_scope_rec(child)", min_fire=1)
    r.extend(base_rules())
    c = C("contains_var_decl_in_scope")
    kb.emit_function("_Bool contains_var_decl_in_scope(int node)", sl, r, c.fn, c.loops, "contains_var_decl_in_scope", ghost=c.ghost)
    kb.add('void h_contains_var_decl_in_scope(void) { int n; contains_var_decl_in_scope(n); VERIF_CANARY("returns normally"); }')
    t = Target("contains_var_decl_in_scope", "h_contains_var_decl_in_scope", replace=["contains_var_decl_in_scope_rec"], objbits=8)
    t.expect_loops = True
    t.invariant_class = "P"
    kb.targets.append(t)
    # where the answer is used: Block keeps its scope unless the answer is false
    bs = op.slice_block("struct Block")
    btxt = " ".join(chai2c.strip_comments(bs.body).split())
    ok = bool(re.search(r"if \(!contains_var_decl_in_scope\(\*node\)\) \{", btxt)) and btxt.count("Scopeless_Block_AST_Node") >= 1
    kb.static_facts.append(("optimizer::Block builds a Scopeless_Block only under `if (!contains_var_decl_in_scope(*node))`", ok, bs.where()))
    kb.slices.append(("struct Block (optimizer)", bs.where(), bs.sha))
    kb.assumptions += [
        "the syntax tree is seen through uninterpreted functions (type, child count, child); the recursive call is replaced by the function's own contract "
        "(induction over the finite tree: if any node reachable without crossing a Block / For / Ranged_For declares a name, the answer is true)",
        "the declaring node types are read off chaiscript_eval.hpp by a scan (nodes calling t_ss.add_object before any Scope_Push_Pop of their own)",
    ]
    kb.unverified += ["the other optimizer passes and what Scopeless_Block / For_Loop rewriting do with the scope at run time"]
    return kb
