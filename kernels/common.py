"""Shared assembly helpers for kernel recipes."""
import os
import re
import sys

sys.path.insert(0, os.path.join(os.path.dirname(__file__), "..", "tools"))
import chai2c  # noqa: E402
from chai2c import ExtractionBreak, Rules  # noqa: E402,F401

VERIF = os.path.abspath(os.path.join(os.path.dirname(__file__), ".."))
DEFINED = {"__GNUC__"}  # default build configuration (DESIGN 3, step 2)


class Target:
    """one cbmc run: function `fn` enforced against its contract from harness
    `harness`; callees in `replace` are replaced by their contracts."""

    def __init__(self, fn, harness, replace=(), loops=True, unwind=None, bounded_note=None,
                 flags=(), enforce=True, objbits=None, canary=True, excluded=(), timeout=600, solver=None,
                 group=None):
        self.fn = fn
        self.harness = harness
        self.replace = list(replace)
        self.loops = loops
        self.unwind = unwind
        self.bounded_note = bounded_note
        self.flags = list(flags)
        self.enforce = enforce
        self.objbits = objbits
        self.canary = canary
        self.excluded = list(excluded)  # regexes over obligation descriptions that are excluded classes
        self.timeout = timeout
        self.solver = solver
        self.group = group or fn

    @property
    def name(self):
        return self.harness


class KernelBuild:
    def __init__(self, kernel, prop):
        self.kernel = kernel
        self.prop = prop
        self.parts = []  # C text chunks
        self.targets = []
        self.slices = []  # (cname, where, sha)
        self.rules_fired = {}
        self.assumptions = []
        self.unverified = []
        self.static_facts = []  # (name, ok, detail)
        self.functions = []  # names of functions under contract
        self.defines = []
        self.native_data = []  # descriptions of natively generated data
        self.contracts = None
        self.nloops = {}

    def add(self, text):
        self.parts.append(text)

    def note_rules(self, rules):
        for k, v in rules.fired.items():
            self.rules_fired[k] = self.rules_fired.get(k, 0) + v
        rules.fired = {}

    def emit_function(self, csig, slice_, rules, fn_clauses, loop_clauses, cname, pre=None, post=None,
                      wrap_body=None, ghost=()):
        """csig: C signature text 'ret name(params)'.  Body comes from the slice."""
        body = chai2c.eval_preproc(slice_.body, DEFINED)
        if pre:
            body = pre(body)
        body = rules.apply(body, ctx=cname)
        self.note_rules(rules)
        if post:
            body = post(body)
        chai2c.forbidden_scan(body, ctx=cname)
        lc = {}
        for n, cls in loop_clauses.items():
            lc[n] = "\n".join(_clause_line(cname, "loop%d" % n, i, c, t) for i, (c, t) in enumerate(cls))
        body = chai2c.splice_loop_contracts(body, lc, ctx=cname)
        self.nloops[cname] = len(lc)
        if ghost:
            body = "\n#ifdef VERIF_CBMC\n" + "\n".join("/*ghost*/ " + g for g in ghost) + "\n#endif\n" + body
        if wrap_body:
            body = wrap_body(body)
        head = csig + "\n" + "\n".join(_clause_line(cname, "fn", i, c, t) for i, (c, t) in enumerate(fn_clauses))
        self.parts.append("/* extracted from %s sha256/16=%s */\n%s\n{%s}\n" % (slice_.where(), slice_.sha, head, body))
        self.slices.append((cname, slice_.where(), slice_.sha))
        if fn_clauses:
            self.functions.append(cname)

    def emit_stub(self, csig, fn_clauses, cname, body=None):
        """a function that exists only as a contract (trusted stub), or with a
        hand-written body (harness helper)."""
        head = csig + "\n" + "\n".join(_clause_line(cname, "fn", i, c, t) for i, (c, t) in enumerate(fn_clauses))
        if body is None:
            self.parts.append(head + ";\n")
        else:
            self.parts.append(head + "\n{" + body + "}\n")

    def text(self):
        return "\n".join(self.parts)


def _clause_line(fn, where, idx, cls, text):
    one = " ".join(text.split())
    return "%s /*@CL %s %s %s %d*/" % (one, fn, where, cls, idx)


def clause_map(ctext):
    """line number (1-based) -> (fn, where, cls, idx, text)"""
    res = {}
    for ln, line in enumerate(ctext.split("\n"), 1):
        mm = re.search(r"/\*@CL (\w+) (\w+) (\w) (\d+)\*/", line)
        if mm:
            res[ln] = (mm.group(1), mm.group(2), mm.group(3), int(mm.group(4)), line[:mm.start()].strip())
    return res


def load_contracts(name):
    return chai2c.parse_contracts(os.path.join(VERIF, "contracts", name))


# ---- generic rules (R0, R6) shared by all kernels ----

def base_rules():
    r = Rules("base")
    r.add("R6.static_cast", r"\bstatic_cast<\s*([A-Za-z_][\w:\s\*]*?)\s*>\s*\(", r"(\1)(")
    r.add("R6.const_cast", r"\bconst_cast<\s*([A-Za-z_][\w:\s\*]*?)\s*>\s*\(", r"(\1)(")
    r.add("R6.nullptr", r"\bnullptr\b", "NULL")
    r.add("R6.std_size_t", r"\bstd::(size_t|uint8_t|uint16_t|uint32_t|uint64_t|int8_t|int16_t|int32_t|int64_t)\b", r"\1")
    r.add("R6.tolower", r"\bstd::tolower\(", "verif_tolower(")
    r.add("R0.noexcept", r"\bnoexcept\b", "")
    r.add("R0.constexpr", r"\bconstexpr\b", "")
    return r


def throw_rule(kindmap, relpath):
    """R5: throw exception::X(...); -> VERIF_THROW(K_X, "site");  multi-line args
    are swallowed up to the matching ')' followed by ';'."""

    def apply(body, cname):
        m = chai2c._mask(body)
        out = []
        last = 0
        n = 0
        for mm in re.finditer(r"\bthrow\s+((?:\w+::)*)(\w+)\s*\(", m):
            if mm.start() < last:
                continue
            op = mm.end() - 1
            cp = chai2c.match_brace(m, op, "(", ")")
            semi = m.find(";", cp)
            if m[cp + 1:semi].strip():
                raise ExtractionBreak("throw expression not understood in %s" % cname)
            exc = mm.group(2)
            if exc not in kindmap:
                raise ExtractionBreak("throw of unknown exception type %s in %s" % (exc, cname))
            n += 1
            msgm = re.match(r'\s*"([^"]*)"', body[op + 1:cp])
            msg = msgm.group(1) if msgm else ""
            site = "%s:%s#%d %s" % (relpath, cname, n, msg.replace('"', "'").replace("\\", "/"))
            out.append(body[last:mm.start()])
            out.append('VERIF_THROW(%s, "%s");' % (kindmap[exc], site))
            last = semi + 1
        out.append(body[last:])
        return "".join(out), n

    return apply


def nondet_bools(decl):
    """harness declarations: `bool a, b;` / `const bool a;` -> initialised with verif_nondet_bool()"""
    def f(mm):
        names = [n.strip() for n in mm.group(2).split(",")]
        return "bool " + ", ".join("%s = verif_nondet_bool()" % n for n in names) + ";"
    return re.sub(r"\b(const\s+)?bool\s+([\w\s,]+);", f, decl)
