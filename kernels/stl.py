"""Kernel K8: the C++ wrapper layer of the built-in containers (bootstrap_stl.hpp): Bidir_Range,
detail::insert_at / erase_at and EVERY callable registered with m.add(fun(...), name) by the
sequence / string concept functions.  Property C12 (wrapper half).

Registered callables are found by scanning the concept functions on every run:
  lambda                       -> its body is cut out and transliterated to a C function
  &detail::f<ContainerType>    -> the extracted function detail_f
  &Bidir_Type::m               -> the extracted method Bidir_Range_m
  [static_cast<..>](&X::m)     -> a std member bound directly: a one-line wrapper calling the stub
                                  vseq_m, so the member's own precondition becomes an obligation of
                                  the script-facing callable (whose precondition is `true`)
"""
import re

from common import (KernelBuild, Target, Rules, ExtractionBreak, base_rules, load_contracts, throw_rule, chai2c)

ST = "include/chaiscript/dispatchkit/bootstrap_stl.hpp"
KINDMAP = {"range_error": "K_range_error", "out_of_range": "K_out_of_range", "length_error": "K_length_error"}

HEADER = r'''
/* exceptional postcondition: a throw is allowed exactly when the specification says so (ghosts
 * computed from the entry state by the @ghost lines of each contract) */
#define VERIF_THROW_OK(kind) (!verif_noexcept && ((kind) == K_range_error ? verif_spec_range : (kind) == K_out_of_range ? verif_spec_oor : (kind) == K_length_error ? verif_spec_len : 0))
_Bool verif_spec_range, verif_spec_oor, verif_spec_len;
_Bool verif_noexcept; /* ghost: inside a callable declared noexcept an exception is std::terminate - a crash, never "raises an exception" */
#include "verif_stl.h"
int verif_thrown;
/* verif_spec_range: spec: the call must raise std::range_error (emptiness / position precondition violated)
 * verif_spec_oor:   spec: the std operation itself raises std::out_of_range (at, substr)
 * verif_spec_len:   spec: the std operation raises std::length_error / bad_alloc (resize, reserve beyond the ghost capacity) */
typedef struct Bidir_Range { viter m_begin; viter m_end; } Bidir_Range;
#define SEQ_OK(c) ((c)->size <= (c)->cap && (c)->cap <= 1000000000ul)
#define SEQ_REQ(c) (__CPROVER_is_fresh(c, sizeof(vseq)) && SEQ_OK(c))
#define RANGE_REQ(r) (__CPROVER_is_fresh(r, sizeof(Bidir_Range)) && __CPROVER_is_fresh((r)->m_begin.c, sizeof(vseq)) && (r)->m_end.c == (r)->m_begin.c \
                      && SEQ_OK((r)->m_begin.c) && (r)->m_begin.idx <= (r)->m_end.idx && (r)->m_end.idx <= (r)->m_begin.c->size)
#define NPOS ((size_t)-1)
'''

CONTAINER_NAMES = ("ContainerType", "VectorType", "String", "ListType")
SEQ_CONCEPTS = ["random_access_container_type", "resizable_type", "reservable_type", "container_type", "sequence_type",
                "back_insertion_sequence_type", "front_insertion_sequence_type", "vector_type", "string_type"]
# std members that may be bound directly: C signature of the wrapper (ret, extra params, call)
STD_MEMBERS = {
    "push_back": ("void", ["velem v"], "vseq_push_back(c, v);"),
    "push_front": ("void", ["velem v"], "vseq_push_front(c, v);"),
    "pop_back": ("void", [], "vseq_pop_back(c);"),
    "pop_front": ("void", [], "vseq_pop_front(c);"),
    "back": ("vref", [], "return vseq_back(c);"),
    "front": ("vref", [], "return vseq_front(c);"),
    "clear": ("void", [], "vseq_clear(c);"),
    "empty": ("bool", [], "return vseq_empty(c);"),
    "size": ("size_t", [], "return vseq_size(c);"),
    "capacity": ("size_t", [], "return vseq_capacity(c);"),
    "at": ("vref", ["size_t i"], "return vseq_at(c, i);"),
    "operator[]": ("vref", ["size_t i"], "return vseq_index(c, i);"),
}
# C return types of the lambdas (R8 table): keyed by registered name; anything else -> ExtractionBreak
LAMBDA_RET = {"[]": "vref", "resize": "void", "reserve": "void", "capacity": "size_t", "size": "size_t", "empty": "bool", "clear": "void",
              "back": "vref", "front": "vref", "pop_back": "void", "pop_front": "void", "find": "size_t", "rfind": "size_t",
              "find_first_of": "size_t", "find_last_of": "size_t", "find_last_not_of": "size_t", "find_first_not_of": "size_t",
              "+=": "void", "c_str": "const vseq *", "data": "const vseq *", "substr": "size_t"}


def lambda_rules(params):
    r = Rules("stl-lambda")
    r.add("R6.size_type", r"\btypename \w+::size_type\b", "size_t")
    r.extend(base_rules())
    # a string built from a raw pointer range of another string (unchecked in C++: the range must lie inside the source)
    r.add("R9.str.range", r"\bString\((\w+)->data\(\) \+ ([^,;]+), ([^;]+)\);", r"vseq_from_range(\1, \2, \3);")
    r.add("R9.min", r"\bstd::min\(", "VERIF_MIN(")
    r.add("R9.npos", r"\b(?:String|std::string)::npos\b", "NPOS")
    r.add("R9.str.pluseq", r"\breturn \(\*s \+= c\);", "vseq_push_back(s, c); return;")
    r.add("R9.resize2", r"\b(\w+)->resize\((\w+), (\w+)\)", r"vseq_resize_val(\1, \2, \3)")
    names = "|".join(params) if params else "verif_none"
    r.add("R9.index", r"\b(%s)\[([^\[\]]*)\]" % names, r"vseq_index(\1, \2)")
    r.add("R9.pindex", r"\(\*(%s)\)\[([^\[\]]*)\]" % names, r"vseq_index(\1, \2)")
    r.add("R9.call0", r"\b(%s)\s*(?:\.|->)\s*(\w+)\(\s*\)" % names, r"vseq_\2(\1)")
    r.add("R9.calln", r"\b(%s)\s*(?:\.|->)\s*(\w+)\(" % names, r"vseq_\2(\1, ")
    return r


def convert_params(ptext, ctx):
    """lambda / function parameter list -> (C params text, [names of container params])"""
    out, cont = [], []
    ptext = " ".join(ptext.split())
    if not ptext:
        return "void", []
    for p in ptext.split(","):
        p = p.strip()
        mm = re.fullmatch(r"(const\s+)?(%s)\s*[&*]\s*(\w+)" % "|".join(CONTAINER_NAMES), p)
        if mm:
            out.append("%svseq *%s" % (mm.group(1) or "", mm.group(3)))
            cont.append(mm.group(3))
            continue
        mm = re.fullmatch(r"int (\w+)", p)
        if mm:
            out.append(p)
            continue
        mm = re.fullmatch(r"(?:size_t|typename \w+::size_type) (\w+)", p)
        if mm:
            out.append("size_t " + mm.group(1))
            continue
        mm = re.fullmatch(r"(?:const )?typename \w+::value_type\s*&?\s*(\w+)", p)
        if mm:
            out.append("velem " + mm.group(1))
            continue
        raise ExtractionBreak("%s: parameter not understood: %r" % (ctx, p))
    return ", ".join(out), cont


def split_top(s):
    """split on top-level commas (parens, braces, brackets, angle brackets of templates ignored inside literals)"""
    m = chai2c._mask(s)
    parts, depth, last = [], 0, 0
    for i, ch in enumerate(m):
        if ch in "([{":
            depth += 1
        elif ch in ")]}":
            depth -= 1
        elif ch == "," and depth == 0:
            parts.append(s[last:i])
            last = i + 1
    parts.append(s[last:])
    return parts


class Reg:
    def __init__(self, concept, name, kind, where):
        self.concept, self.name, self.kind, self.where = concept, name, kind, where
        self.cname = None


def scan_registrations(hdr, concept):
    """all m.add(...) of one concept function -> list of (Reg, detail)"""
    sl = hdr.slice_function("void %s(const std::string &" % concept, unique=True)
    body_start = sl.ob + 1
    text, masked = hdr.text, hdr.masked
    res = []
    for mm in re.finditer(r"\bm\.add\(", masked[body_start:sl.cb]):
        op = body_start + mm.end() - 1
        cp = chai2c.match_brace(masked, op, "(", ")")
        args = text[op + 1:cp]
        parts = split_top(args)
        first = parts[0].strip()
        if not first.startswith("fun("):
            continue  # user_type / constructor: no callable body to check here
        if len(parts) < 2:
            raise ExtractionBreak("%s: m.add(fun(..)) without a name" % concept)
        nametext = ",".join(parts[1:])
        names = re.findall(r'"([^"]+)"', nametext)
        names = [n for n in names if not n.startswith("#") and "def " not in n and "\\n" not in n and " " not in n.strip()]
        if not names:
            raise ExtractionBreak("%s: registered name not understood: %r" % (concept, nametext[:80]))
        name = names[-1]
        fop = op + 1 + args.index("fun(") + 3
        fcp = chai2c.match_brace(masked, fop, "(", ")")
        inner = text[fop + 1:fcp].strip()
        where = "%s:%d" % (hdr.relpath, hdr.line_of(op))
        if inner.startswith("["):
            # lambda: [](params) [-> ret] { body }
            lb = fop + 1 + text[fop + 1:fcp].index("[")
            pop_ = masked.index("(", lb)
            pcp = chai2c.match_brace(masked, pop_, "(", ")")
            ob = masked.index("{", pcp)
            cb = chai2c.match_brace(masked, ob)
            if masked[cb + 1:fcp].strip():
                raise ExtractionBreak("%s/%s: text after lambda body" % (concept, name))
            cap = text[lb:pop_].strip()
            if cap != "[]":
                raise ExtractionBreak("%s/%s: capturing lambda not in the rule set" % (concept, name))
            res.append((Reg(concept, name, "lambda", where), (text[pop_ + 1:pcp], text[pcp + 1:ob], chai2c.Slice(hdr, "lambda " + name, lb, ob, cb))))
            continue
        mm2 = re.fullmatch(r"&?detail::(\w+)<\w+>", inner)
        if mm2:
            res.append((Reg(concept, name, "detail", where), mm2.group(1)))
            continue
        mm2 = re.fullmatch(r"&Bidir_Type::(\w+)", inner)
        if mm2:
            res.append((Reg(concept, name, "range", where), mm2.group(1)))
            continue
        mm2 = re.fullmatch(r"(?:static_cast<\s*\w+\s*>\(\s*)?&(\w+)::(operator\[\]|\w+)\s*\)?", inner)
        if mm2:
            res.append((Reg(concept, name, "member", where), (mm2.group(1), mm2.group(2))))
            continue
        raise ExtractionBreak("%s/%s: registered callable not understood: %r" % (concept, name, inner[:80]))
    return sl, res


def range_rules():
    r = base_rules()
    r.add("R3.it.eq", r"\bm_begin == m_end\b", "viter_eq(&self->m_begin, &self->m_end)")
    r.add("R3.it.inc", r"\+\+(m_begin|m_end);", r"viter_inc(&self->\1);")
    r.add("R3.it.dec", r"--(m_begin|m_end);", r"viter_dec(&self->\1);")
    r.add("R3.it.deref", r"\breturn \(\*m_begin\);", "return viter_deref(&self->m_begin);")
    r.add("R8.auto.pos", r"\bauto pos = m_end;", "viter pos = self->m_end;")
    r.add("R3.it.decl", r"--pos;", "viter_dec(&pos);")
    r.add("R3.it.derefl", r"\breturn \(\*\(pos\)\);", "return viter_deref(&pos);")
    r.add("R3.it.prev", r"\breturn \(\*std::prev\((m_begin|m_end)\)\);", r"{ viter verif_prev = viter_prev(self->\1); return viter_deref(&verif_prev); }")
    r.add("R3.it.next", r"\breturn \(\*std::next\((m_begin|m_end)\)\);", r"{ viter verif_next = viter_next(self->\1); return viter_deref(&verif_next); }")
    r.add("R4.sib.empty", r"(?<![\w.>])empty\(\)", "Bidir_Range_empty(self)")
    return r


def detail_rules():
    r = Rules("stl-detail")
    r.add("R6.size_type", r"\btypename \w+::size_type\b", "size_t")
    r.extend(base_rules())
    r.add("R8.auto.itr", r"\bauto itr = container\.begin\(\);", "viter itr = vseq_begin(container);", min_fire=1)
    r.add("R8.auto.end", r"\bauto end = container\.end\(\);", "viter end = vseq_end(container);")
    r.add("R9.csize", r"\bcontainer\.size\(\)", "vseq_size(container)")
    r.add("R9.cempty", r"\bcontainer\.empty\(\)", "vseq_empty(container)")
    r.add("R9.distance", r"\bstd::distance\(itr, end\)", "viter_distance(&itr, &end)")
    r.add("R9.advance", r"\bstd::advance\(itr, pos\);", "viter_advance(&itr, pos);")
    r.add("R9.insert", r"\bcontainer\.insert\(itr, v\);", "vseq_insert(container, itr, v);")
    r.add("R9.erase", r"\bcontainer\.erase\(itr\);", "vseq_erase(container, itr);")
    return r


def build(prop, tier="quick"):
    kb = KernelBuild("stl", prop)
    contracts = load_contracts("K8_stl.contracts")
    kb.add(HEADER)
    hdr = chai2c.Header(ST)
    thr = throw_rule(KINDMAP, ST)

    def C(name, fallback=None):
        c = chai2c.contracts_for(contracts, name, prop)
        if not c.fn and fallback:
            c = chai2c.contracts_for(contracts, fallback, prop)
        return c

    def with_throws(cname):
        def pre(b):
            b2, n = thr(b, cname)
            return b2
        return pre

    NOEX = [["F", "__CPROVER_assigns(verif_noexcept)"]]

    def with_throws0(cname):
        w = with_throws(cname)
        return lambda b: "verif_noexcept = 0; /* not declared noexcept */" + w(b)

    def harness(cname, csig, replace=()):
        # csig: 'ret name(params)'
        ptxt = csig[csig.index("(") + 1:csig.rindex(")")]
        decls, args = [], []
        if ptxt.strip() != "void":
            for k, p in enumerate(ptxt.split(",")):
                p = p.strip()
                nm = re.search(r"(\w+)$", p).group(1)
                ty = p[:len(p) - len(nm)].strip()
                if ty == "bool":
                    decls.append("bool a%d = verif_nondet_bool();" % k)
                else:
                    decls.append("%s a%d;" % (ty, k))
                args.append("a%d" % k)
        kb.add("void h_%s(void) { verif_noexcept = 0; %s %s(%s); VERIF_CANARY(\"%s returns normally\"); }" % (cname, " ".join(decls), cname, ", ".join(args), cname))
        t = Target(cname, "h_" + cname, replace=list(replace))
        kb.targets.append(t)
        return t

    # ---- Bidir_Range
    rs = hdr.slice_block("struct Bidir_Range")
    fields = re.findall(r"^\s*IterType (\w+);", rs.body, re.M)
    if fields != ["m_begin", "m_end"]:
        raise ExtractionBreak("Bidir_Range fields changed: %r" % fields)
    kb.add("bool Bidir_Range_empty(const Bidir_Range *self);")
    sl = hdr.slice_function("constexpr Bidir_Range(Container &c)", after=rs.ob)
    inits = re.findall(r"(\w+)\(c\.(begin|end)\(\)\)", sl.sig_tail)
    if sorted(inits) != [("m_begin", "begin"), ("m_end", "end")] or sl.body.strip():
        raise ExtractionBreak("Bidir_Range constructor initialiser list changed: %r" % (inits,))
    init = " ".join("self->%s = vseq_%s(c);" % (f, w) for f, w in inits)
    c = C("Bidir_Range_ctor")
    kb.emit_function("void Bidir_Range_ctor(Bidir_Range *self, const vseq *c)", sl, range_rules(), c.fn, c.loops, "Bidir_Range_ctor",
                     pre=lambda b: init + " /* R9: constructor initialiser list */" + b, ghost=c.ghost)
    harness("Bidir_Range_ctor", "void Bidir_Range_ctor(Bidir_Range *self, const vseq *c)")
    range_methods = {}
    for meth, anchor, ret, cst in (("empty", "constexpr bool empty() const noexcept", "bool", True),
                                   ("pop_front", "constexpr void pop_front()", "void", False),
                                   ("pop_back", "constexpr void pop_back()", "void", False),
                                   ("front", "constexpr decltype(auto) front() const", "vref", True),
                                   ("back", "constexpr decltype(auto) back() const", "vref", True)):
        sl = hdr.slice_function(anchor, after=rs.ob)
        if sl.cb > rs.cb:
            raise ExtractionBreak("Bidir_Range::%s not inside the struct" % meth)
        cname = "Bidir_Range_" + meth
        csig = "%s %s(%sBidir_Range *self)" % (ret, cname, "const " if cst else "")
        c = C(cname)
        kb.emit_function(csig, sl, range_rules(), c.fn, c.loops, cname, pre=with_throws(cname), ghost=c.ghost)
        harness(cname, csig, replace=[] if meth == "empty" else ["Bidir_Range_empty"])
        range_methods[meth] = cname

    # ---- detail::insert_at / erase_at
    detail = {}
    for fn, anchor, csig in (("insert_at", "void insert_at(Type &container, int pos, const typename Type::value_type &v)",
                              "void detail_insert_at(vseq *container, int pos, velem v)"),
                             ("erase_at", "void erase_at(Type &container, int pos)", "void detail_erase_at(vseq *container, int pos)")):
        sl = hdr.slice_function(anchor)
        cname = "detail_" + fn
        c = C(cname)
        kb.emit_function(csig, sl, detail_rules(), c.fn, c.loops, cname, pre=with_throws(cname), ghost=c.ghost)
        harness(cname, csig)
        detail[fn] = cname

    # ---- every registered callable of the sequence / string concepts
    regs_seen = []
    counts = {}
    for concept in SEQ_CONCEPTS + ["input_range_type_impl"]:
        csl, regs = scan_registrations(hdr, concept)
        kb.slices.append(("registrations of " + concept, csl.where(), csl.sha))
        for reg, det in regs:
            key = (concept, reg.name)
            counts[key] = counts.get(key, 0) + 1
            base = "reg_%s_%s_%d" % (concept, re.sub(r"\W", lambda m: {"[": "idx", "]": "", "+": "plus", "=": "eq"}.get(m.group(0), "_"), reg.name), counts[key])
            reg.cname = base
            if reg.kind == "lambda":
                ptext, rettext, sl = det
                if reg.name not in LAMBDA_RET:
                    raise ExtractionBreak("%s: lambda registered as %r has no entry in the return type table" % (concept, reg.name))
                cparams, cont = convert_params(ptext, base)
                csig = "%s %s(%s)" % (LAMBDA_RET[reg.name], base, cparams)
                c = C(base, fallback="reg_default")
                tail = " ".join(rettext.split())
                if tail and not re.fullmatch(r"(noexcept)?\s*(->\s*[\w:<>&\s\*()]+)?", tail):
                    raise ExtractionBreak("%s: lambda declarator %r not in the rule set" % (base, tail))
                is_noexcept = "noexcept" in tail
                w = with_throws(base)
                # every harness starts with verif_noexcept = 0; only a lambda that IS declared noexcept sets (and may assign) the ghost
                kb.emit_function(csig, sl, lambda_rules(cont), list(c.fn) + ([["F", "__CPROVER_assigns(verif_noexcept)"]] if is_noexcept else []), c.loops, base,
                                 pre=(lambda b, w=w: "verif_noexcept = 1; /* this lambda is declared so */" + w(b)) if is_noexcept else w, ghost=c.ghost)
                harness(base, csig)
            elif reg.kind == "member":
                cls, member = det
                if cls not in CONTAINER_NAMES:
                    raise ExtractionBreak("%s/%s: member of %s bound directly - not a container type of this concept" % (concept, reg.name, cls))
                if member not in STD_MEMBERS:
                    raise ExtractionBreak("%s/%s: std member %s bound directly has no stub" % (concept, reg.name, member))
                ret, extra, call = STD_MEMBERS[member]
                c = C(base, fallback="reg_default")
                # the wrapper's container parameter takes the name the contract of this registration uses
                pm = re.search(r"SEQ_REQ\((\w+)\)", " ".join(t for _, t in c.fn))
                pname = pm.group(1) if pm else "c"
                call = re.sub(r"\bc\b", pname, call)
                csig = "%s %s(%s)" % (ret, base, ", ".join(["vseq *" + pname] + extra))
                kb.emit_stub(csig, c.fn, base, body=("\n#ifdef VERIF_CBMC\n" + "\n".join("/*ghost*/ " + g for g in c.ghost) + "\n#endif\n" if c.ghost else "")
                             + " /* std member %s::%s bound directly at %s */ %s " % (cls, member, reg.where, call))
                kb.functions.append(base)
                harness(base, csig)
            elif reg.kind == "detail":
                if det not in detail:
                    raise ExtractionBreak("%s/%s: detail::%s is not an extracted function" % (concept, reg.name, det))
                reg.cname = detail[det]
            elif reg.kind == "range":
                if det not in range_methods:
                    raise ExtractionBreak("%s/%s: Bidir_Range::%s is not an extracted method" % (concept, reg.name, det))
                reg.cname = range_methods[det]
            regs_seen.append(reg)
    must = {("back_insertion_sequence_type", "pop_back"), ("front_insertion_sequence_type", "pop_front"), ("back_insertion_sequence_type", "back"),
            ("front_insertion_sequence_type", "front"), ("vector_type", "front"), ("random_access_container_type", "[]"),
            ("sequence_type", "insert_at"), ("sequence_type", "erase_at"), ("string_type", "substr"),
            ("input_range_type_impl", "pop_front"), ("input_range_type_impl", "front"), ("input_range_type_impl", "back")}
    have = {(r.concept, r.name) for r in regs_seen}
    missing = must - have
    kb.static_facts.append(("every script-facing sequence/string/range callable of bootstrap_stl.hpp is under contract",
                            True, "%d registrations scanned: %s" % (len(regs_seen), ", ".join("%s/%s->%s(%s)" % (r.concept, r.name, r.cname, r.kind) for r in regs_seen))))
    if missing:
        raise ExtractionBreak("expected registrations not found: %r" % sorted(missing))
    if tier == "thorough":
        rc, cases, err = _run_probe(["search", ""], timeout=3000)
        kb.static_facts.append(("native battery (thorough tier): every container operation of probe_stl.cpp agrees with the std model on the real engine under ASan",
                                rc == 0 and not cases, (err.strip() + " " + str(cases[:3]))[:400]))
    kb.assumptions += [
        "std sequence containers are modelled by verif_stl.h's vseq/viter (length, ghost capacity, ghost record of the last structural operation; "
        "elements opaque): each stub carries the standard's precondition as a class [S] assertion and the standard's effect on the length - "
        "this design's reading of [sequence.reqmts], [vector], [list], [basic.string]; assumed, not proved",
        "containers hold at most 10^9 elements (so int positions and ptrdiff_t distances cannot overflow)",
        "a Bidir_Range is used while its container is unchanged (iterator invalidation is outside this kernel)",
        "the result of the string find family is only constrained to npos or an index (assumed in the stub via __CPROVER_assume)",
        "lambda return types come from a table in kernels/stl.py (the C++ deduced types are not re-derived)",
    ]
    kb.unverified += ["the script-level half of the statement (prelude functions in chaiscript_prelude.hpp)",
                      "Map / Pair members (std::map::operator[], at, erase, count, insert are total in C++; bound directly, not modelled)",
                      "element values and order inside the containers (only lengths and the kind/position of each structural change are modelled)",
                      "iterator invalidation: a Range kept across a mutation of its container",
                      "dispatch of these callables (argument conversion: property C06)"]
    return kb


# ---- native replay: the real callables through a real engine (ASan), compared with a std model
def build_probe():
    import native
    import os
    from common import VERIF
    return native.build("probe_stl", os.path.join(VERIF, "native", "probe_stl.cpp"), flags=["-fsanitize=address"])


def _filter_for(target):
    if "Bidir_Range_" in target:
        m = target.split("Bidir_Range_")[1]
        return "range_" + m if m in ("front", "back", "pop_front", "pop_back") else "range_"
    for k in ("insert_at", "erase_at", "pop_back", "pop_front", "substr", "resize", "front", "back"):
        if k in target:
            return k
    if "_idx_" in target:
        return "[]"
    return ""


def _run_probe(args, timeout=1500):
    import json
    import subprocess
    r = subprocess.run([build_probe()] + args, stdout=subprocess.PIPE, stderr=subprocess.PIPE, timeout=timeout)
    cases = []
    for line in r.stdout.decode("utf-8", "replace").splitlines():
        try:
            cases.append(json.loads(line))
        except ValueError:
            pass
    return r.returncode, cases, r.stderr.decode("utf-8", "replace")[-300:]


def replay_fn(kb, t, pr, vals, order, rec):
    flt = _filter_for(t.name if t else "")
    args = ["search", flt]
    for k in ("pos", "index", "a1"):
        v = vals.get(k)
        try:
            if v is not None and abs(int(v)) < 2 ** 31:
                args.append(str(int(v)))
                break
        except (TypeError, ValueError):
            pass
    rc, cases, err = _run_probe(args)
    return {"reproduced": bool(cases), "probe": "native/probe_stl.cpp (real ChaiScript engine under ASan; operations '%s' on Vector/string/List of 0..3 elements, "
            "positions from the counterexample and a boundary battery, compared with the std model)" % (flt or "all"),
            "failing_cases": cases[:6], "probe_summary": err.strip()}


def replay_file(rec):
    cases = (rec.get("native_replay") or {}).get("failing_cases") or []
    if not cases:
        print("replay: no failing input recorded; failed obligation: %s :: %s" % (rec.get("obligation"), rec.get("description")))
        return 2
    rc = 0
    for c in cases:
        r, cs, err = _run_probe(["case", c["kind"], c["op"], str(c["n"]), str(c["arg"])], timeout=300)
        if r != 0:
            rc = 1
            print("REPRODUCED on real code: %s" % (cs or c))
        else:
            print("not reproduced: %r" % c)
    return rc
