"""Kernel K13: the recursive-descent grammar of ChaiScript_Parser above the lexer layer
(include/chaiscript/language/chaiscript_parser.hpp), for property C01.

Every grammar function from Char / Keyword / Symbol / Eos / Arg up to Statements is cut out of the header on every run and
checked against a contract on (cursor, parse depth, length of the match stack):
  * the cursor stays valid and never ends before the entry offset;
  * `true` means input was consumed (strict progress) - the fact every `while (X())` loop of the grammar terminates by, and
    every such loop carries a decreases clause on the remaining input;
  * the parse depth is back at its entry value on every normal return (Depth_Counter pairing);
  * the match stack never shrinks below its entry length, build_match is only ever called with `t_match_start <= size()`,
    back() / pop_back() only on a non-empty stack, m_operators[] only inside its 12 entries;
  * the two `--m_position` of Dot_Fun_Array are applied to a cursor that is not at offset 0;
  * only eval_error is thrown.
Callees are replaced by their contracts (self-recursive functions by --enforce-contract-rec), so each function is checked
for every input and every state of the rest of the grammar.

What the extraction drops (stated in the evidence): the node type argument and text argument of build_match<T>(start, text),
the arguments of make_node / make_unique (a push is a push), std::string locals that only carry operator / class names, the
AST surgery of Dot_Fun_Array's method-call work-around (replaced by a stub that keeps the stack length), and reads of
`m_match_stack.back()->children...` (an arbitrary answer, after checking that the stack is not empty).
Assumed contracts (not proved here): Num, Id, Quoted_String, Single_Quoted_String (their lexers are K2, the literal builders
K5a/K5b/K5c), Operator_Helper (std::any_of over the operator tables with Symbol as predicate), build_match (its location
computation is K12), is_operator."""
import re

from common import (nondet_bools, KernelBuild, Target, Rules, ExtractionBreak, base_rules, load_contracts, throw_rule, chai2c)
import parser as pk

HDR = pk.HDR
CM = "include/chaiscript/language/chaiscript_common.hpp"

POS_IDS = "m_position|start|prev_pos"

# (name, anchor, C parameter list after `Parser *self`, has Depth_Counter)
GRAMMAR = [
    ("Char", "bool Char(const char t_c)", "const char t_c", True),
    ("Keyword", "bool Keyword(const utility::Static_String &t_s)", "const Static_String *t_s", True),
    ("Symbol", "bool Symbol(const utility::Static_String &t_s, const bool t_disallow_prevention = false)",
     "const Static_String *t_s, const bool t_disallow_prevention", True),
    ("Eos", "bool Eos()", "", True),
    ("Arg", "bool Arg(const bool t_type_allowed = true)", "const bool t_type_allowed", False),
    ("Id_Arg_List", "bool Id_Arg_List()", "", True),
    ("Decl_Arg_List", "bool Decl_Arg_List()", "", True),
    ("Arg_List", "bool Arg_List()", "", True),
    ("Container_Arg_List", "bool Container_Arg_List()", "", True),
    ("Lambda", "bool Lambda()", "", True),
    ("Def", "bool Def(const bool t_class_context = false, const std::string &t_class_name = \"\")", "const bool t_class_context", True),
    ("Try", "bool Try()", "", True),
    ("If", "bool If()", "", True),
    ("Class", "bool Class(const bool t_class_allowed)", "const bool t_class_allowed", True),
    ("While", "bool While()", "", True),
    ("Range_Expression", "bool Range_Expression()", "", True),
    ("For_Guards", "bool For_Guards()", "", True),
    ("For", "bool For()", "", True),
    ("Case", "bool Case()", "", True),
    ("Switch", "bool Switch()", "", True),
    ("Class_Block", "bool Class_Block(const std::string &t_class_name)", "", True),
    ("Block", "bool Block()", "", True),
    ("Return", "bool Return()", "", True),
    ("Break", "bool Break()", "", True),
    ("Continue", "bool Continue()", "", True),
    ("Dot_Fun_Array", "bool Dot_Fun_Array()", "", True),
    ("Var_Decl", "bool Var_Decl(const bool t_class_context = false, const std::string &t_class_name = \"\")", "const bool t_class_context", True),
    ("Paren_Expression", "bool Paren_Expression()", "", True),
    ("Inline_Container", "bool Inline_Container()", "", True),
    ("Reference", "bool Reference()", "", True),
    ("Prefix", "bool Prefix()", "", True),
    ("Value", "bool Value()", "", True),
    ("Operator", "bool Operator(const size_t t_precedence = 0)", "const size_t t_precedence", True),
    ("Map_Pair", "bool Map_Pair()", "", True),
    ("Value_Range", "bool Value_Range()", "", True),
    ("Equation", "bool Equation()", "", True),
    ("Class_Statements", "bool Class_Statements(const std::string &t_class_name)", "", True),
    ("Statements", "bool Statements(const bool t_class_allowed = false)", "const bool t_class_allowed", True),
]
# grammar-level functions that stay assumed contracts in this kernel
ASSUMED = [
    ("Num", ""), ("Id", "const bool validate"), ("Quoted_String", ""), ("Single_Quoted_String", ""),
    ("Operator_Helper", "const size_t t_precedence"),
]
NAMES = [g[0] for g in GRAMMAR] + [a[0] for a in ASSUMED]

HEADER_EXTRA = r'''
/* K13: allocation is assumed to succeed and the match stack to stay below VVEC_MAX = 2^31-2 entries (the bound A4 puts on the input length) (std::length_error /
 * std::bad_alloc are outside every property) */
#define VVEC_MAX ((size_t)2147483645u)
#ifdef VERIF_CBMC
static inline void vvec_emplace_back_lim(vvec *v) { __CPROVER_assume(v->size < VVEC_MAX); v->size = v->size + 1; }
#else
static inline void vvec_emplace_back_lim(vvec *v) { v->size = v->size + 1; }
#endif
/* ghost: grammar frames entered since the last Depth_Counter; a function without its own Depth_Counter may only be entered
 * while fewer than VERIF_UMAX such frames are open, so every cycle of the call graph must pass a Depth_Counter and the native
 * recursion is bounded by (VERIF_UMAX + 1) * (max_depth + 1) frames */
#define VERIF_UMAX 8
#define GREQ (PREQ && self->m_current_parse_depth <= max_depth && self->m_match_stack.size <= VVEC_MAX)
#define GDEPTH (self->m_current_parse_depth == __CPROVER_old(self->m_current_parse_depth))
#define GSIZE0 (__CPROVER_old(self->m_match_stack.size))
#define GSIZE (self->m_match_stack.size)
#define POFF_LE ((size_t)__CPROVER_POINTER_OFFSET(__CPROVER_loop_entry(self->m_position.m_pos)))
#define GINV(e) (PVALIDI && POFF >= (e) && self->m_current_parse_depth == __CPROVER_loop_entry(self->m_current_parse_depth) && self->verif_unguarded == __CPROVER_loop_entry(self->verif_unguarded) && GSIZE <= VVEC_MAX)
/* answers read from nodes on the match stack: arbitrary, but the stack must hold the node that is asked */
static inline bool verif_back_children_nonempty(const Parser *self) { VERIF_STD_PRE(self->m_match_stack.size > 0, "vector::back on an empty vector"); return verif_nondet_bool(); }
static inline int verif_back_child0_kind(const Parser *self) { VERIF_STD_PRE(self->m_match_stack.size > 0, "vector::back on an empty vector"); int verif_k; return verif_k; }
static inline bool verif_is_operator(void) { return verif_nondet_bool(); }
'''


def enum_block(hdr, kb, anchor, prefix):
    sl = hdr.slice_block(anchor)
    names = re.findall(r"^\s*(\w+)\s*,?\s*$", sl.body, re.M)
    if len(names) < 3:
        raise ExtractionBreak("%s not understood" % anchor)
    kb.slices.append((anchor, sl.where(), sl.sha))
    return "enum %s { %s };\n" % (prefix.rstrip("_"), ", ".join(prefix + n for n in names)), names


def operators_table(hdr, kb, prec_names):
    sl = hdr.slice_function("constexpr static std::array<Operator_Precedence, 12> create_operators() noexcept")
    mm = re.search(r"std::array<Operator_Precedence, (\d+)> operators = \{\{(.*?)\}\};", sl.body, re.S)
    if not mm:
        raise ExtractionBreak("create_operators(): initializer not understood")
    n = int(mm.group(1))
    items = [x.strip() for x in mm.group(2).split(",") if x.strip()]
    if len(items) != n or not all(re.fullmatch(r"Operator_Precedence::\w+", x) and x.split("::")[1] in prec_names for x in items):
        raise ExtractionBreak("create_operators(): %d entries for an array of %d" % (len(items), n))
    if not re.search(r"constexpr static auto m_operators = create_operators\(\);", hdr.text):
        raise ExtractionBreak("m_operators is no longer create_operators()")
    kb.slices.append(("create_operators", sl.where(), sl.sha))
    return ("#define M_OPERATORS_SIZE %d\nstatic const int m_operators[M_OPERATORS_SIZE] = { %s };\n"
            % (n, ", ".join(x.replace("::", "_") for x in items)))


class Literals:
    """Keyword("for") / Symbol("::") / SS{"+="}: string literals become named Static_String constants
    (m_size = N-1 as in Static_String's array-reference constructor)."""

    def __init__(self):
        self.names = {}

    def name(self, lit):
        if lit not in self.names:
            self.names[lit] = "verif_ss_%d" % len(self.names)
        return self.names[lit]

    def decls(self):
        return "".join("static const Static_String %s = {sizeof(%s) - 1, %s};\n" % (n, lit, lit) for lit, n in self.names.items())


def replace_calls(body, head_rx, repl_fn):
    """replace `<head>(balanced args)` by repl_fn(args)"""
    out, last = [], 0
    m = chai2c._mask(body)
    n = 0
    for mm in re.finditer(head_rx, m):
        if mm.start() < last:
            continue
        op = mm.end() - 1
        cp = chai2c.match_brace(m, op, "(", ")")
        out.append(body[last:mm.start()])
        out.append(repl_fn(body[op + 1:cp]))
        last = cp + 1
        n += 1
    out.append(body[last:])
    return "".join(out), n


def range_for(body, lits):
    """R9.rangefor: a range-for over a literal list of Static_Strings becomes an indexed loop over a constant table."""
    tables = []

    def table(items, k):
        names = [lits.name(x) for x in re.findall(r'SS\{("(?:[^"\\]|\\.)*")\}', items)]
        if not names or len(names) != items.count("SS{"):
            raise ExtractionBreak("R9.rangefor: initializer list not understood: %r" % items)
        tables.append((k, names))
        return len(names)

    # form 1: for (const auto &sym : {SS{"="}, ...})
    def f1(mm):
        n = table(mm.group(2), mm.group(1))
        return ("for (size_t verif_i = 0; verif_i < %d; ++verif_i)\n{ const Static_String *%s = verif_tab_%s[verif_i];"
                % (n, mm.group(1), mm.group(1)))
    body, n1 = re.subn(r"for \(const auto &(\w+)\s*:\s*\{((?:\s*SS\{\"(?:[^\"\\]|\\.)*\"\},?)+)\s*\}\)\s*\{", f1, body)
    # form 2: const std::array<utility::Static_String, N> name{{SS{..}, ...}};  for (const auto &x : name)
    mm = re.search(r"const std::array<utility::Static_String, (\d+)> (\w+)\{\{((?:\s*SS\{\"(?:[^\"\\]|\\.)*\"\},?)+)\s*\}\};", body)
    n2 = 0
    if mm:
        arr = mm.group(2)
        cnt = items_n = None
        body = body[:mm.start()] + body[mm.end():]
        fm = re.search(r"for \(const auto &(\w+) : %s\)\s*\{" % arr, body)
        if not fm:
            raise ExtractionBreak("R9.rangefor: no range-for over %s" % arr)
        items_n = table(mm.group(3), fm.group(1))
        if items_n != int(mm.group(1)):
            raise ExtractionBreak("R9.rangefor: %s declares %s entries, has %d" % (arr, mm.group(1), items_n))
        body = (body[:fm.start()] + "for (size_t verif_i = 0; verif_i < %d; ++verif_i)\n{ const Static_String *%s = verif_tab_%s[verif_i];"
                % (items_n, fm.group(1), fm.group(1)) + body[fm.end():])
        n2 = 1
    return body, tables, n1 + n2


def grammar_rules(lits):
    r = base_rules()
    mf = dict(min_fire=0)
    # R8 autos
    r.add("R8.stacktop", r"\b(?:const auto|size_t) (\w+) = m_match_stack\.size\(\);", r"const size_t \1 = m_match_stack.size;")
    r.add("R8.numchildren", r"\bconst auto (\w+) = m_match_stack\.size\(\) - (\w+);", r"const size_t \1 = m_match_stack.size - \2;")
    r.add("R8.pos", r"\bconst auto (start|prev_pos) = m_position;", r"const Position \1 = m_position;")
    r.add("R8.decpos", r"\bauto start = --m_position;", "Position_dec(&m_position); Position start = m_position;")
    r.add("R9.class_name", r"\bconst auto class_name = m_match_stack\.back\(\)->text;",
          'VERIF_STD_PRE(m_match_stack.size > 0, "vector::back on an empty vector");')
    r.add("R9.oper_decl", r"\bstd::string oper;", "")
    r.add("R9.using_ss", r"\busing SS = utility::Static_String;", "")
    # build_match<T>(start [, text]) -> the stub that keeps only the stack arithmetic
    r.add("R9.build_match", r"\bbuild_match<eval::\w+<Tracer>>\((\w+(?: \+ 1)?)(?:, (?:oper|sym)(?:\.c_str\(\))?)?\);", r"verif_build_match(self, \1);")
    # the match stack seen as its length
    r.add("R9.stack_size", r"\bm_match_stack\.size\(\)", "m_match_stack.size")
    r.add("R9.stack_pop", r"\bm_match_stack\.pop_back\(\);", "vvec_pop_back(&m_match_stack);")
    r.add("R9.stack_empty", r"\bm_match_stack\.empty\(\)", "(m_match_stack.size == 0)")
    r.add("R9.node_children", r"!m_match_stack\.back\(\)->children\.empty\(\)", "verif_back_children_nonempty(self)")
    r.add("R9.node_child0", r"\bm_match_stack\.back\(\)->children\[0\]->identifier == AST_Node_Type::(\w+)", r"verif_back_child0_kind(self) == AST_Node_Type_\1")
    r.add("R9.distance", r"\bstd::distance\(m_match_stack\.begin\(\) \+ (?:static_cast<int>|\(int\))\((\w+)\), m_match_stack\.end\(\)\)",
          r"vvec_distance_from(&m_match_stack, (int)(\1))")
    # operator table
    r.add("R9.ops_size", r"\bm_operators\.size\(\)", "((size_t)M_OPERATORS_SIZE)")
    r.add("R7.prec", r"\bOperator_Precedence::(\w+)", r"Operator_Precedence_\1")
    r.add("R9.assert_false", r"\bassert\(false\);", "VERIF_CASSERT(false);")
    r.add("R9.is_operator", r"\bis_operator\(Position::str\(start, m_position(?: \+ 1)?\)\)", "verif_is_operator()")
    # string literals handed to Keyword / Symbol
    r.add("R2.lit", r"\b(Keyword|Symbol)\((\"(?:[^\"\\]|\\.)*\")", lambda mm: "%s(&%s" % (mm.group(1), lits.name(mm.group(2))))
    # R4 default arguments / dropped name arguments
    r.add("R4.def.Def", r"(?<![\w.>])Def\(\)", "Def(false)")
    r.add("R4.def.Def2", r"(?<![\w.>])Def\(true, t_class_name\)", "Def(true)")
    r.add("R4.def.Var_Decl", r"(?<![\w.>])Var_Decl\(\)", "Var_Decl(false)")
    r.add("R4.def.Var_Decl2", r"(?<![\w.>])Var_Decl\(true, t_class_name\)", "Var_Decl(true)")
    r.add("R4.def.Arg", r"(?<![\w.>])Arg\(\)", "Arg(true)")
    r.add("R4.def.Statements", r"(?<![\w.>])Statements\(\)", "Statements(false)")
    r.add("R4.def.Operator", r"(?<![\w.>])Operator\(\)", "Operator(0)")
    r.add("R4.def.Class_Block", r"(?<![\w.>])Class_Block\(class_name\)", "Class_Block()")
    r.add("R4.def.Class_Statements", r"(?<![\w.>])Class_Statements\(t_class_name\)", "Class_Statements()")
    r.add("R4.def.Operator_Helper", r"(?<![\w.>])Operator_Helper\(t_precedence, oper\)", "Operator_Helper(t_precedence)")
    r.add("R4.def.Symbol", r"(?<![\w.>])Symbol\(([^(),]+)\)", r"Symbol(\1, false)")
    r.add("R4.default.Eol_", r"(?<![\w.>])Eol_\(\)", "Eol_(false)")
    r.add("R4.default.SkipWS", r"(?<![\w.>])SkipWS\(\)", "SkipWS(false)")
    # R3 operator sugar on Position-typed identifiers
    r.add("R3.deref", r"(?<![\w)\]])\*(" + POS_IDS + r")\b", r"(*Position_deref(&\1))")
    r.add("R3.dec", r"--(" + POS_IDS + r")\b", r"Position_dec(&\1)")
    r.add("R3.has_more", r"\b(" + POS_IDS + r")\.has_more\(\)", r"Position_has_more(&\1)")
    # R4 sibling calls
    sibs = sorted(set(NAMES + pk.SIBLINGS), key=len, reverse=True)
    r.add("R4.sib", r"(?<![\w.>])(" + "|".join(sibs) + r")\(", r"Parser_\1(self, ")
    r.add("R4.sib0", r"\(self, \)", "(self)")
    r.add("R2.ssarg", r"Parser_(Symbol_|Keyword_)\(self, (m_\w+)\)", r"Parser_\1(self, &\2)")
    r.add("R2.ss", r"\b(oper|sym|t_s)\.(size|c_str)\(\)", r"Static_String_\2(\1)")
    r.add("R7.detail", r"\bdetail::(\w+)", r"detail_\1")
    r.add("R1.member", r"(?<![\w.>])(m_position|m_current_parse_depth|m_match_stack)\b", r"self->\1")
    return r


def method_call_fixup(body):
    """Dot_Fun_Array: the AST surgery that turns `a.b(c)` into a method call works on the children of the two topmost
    nodes; for the match stack it is pop_back + push_back.  Replaced by a stub with that effect (assumed contract)."""
    mm = re.search(r"if \(!m_match_stack\.back\(\)->children\.empty\(\)\) \{\s*if \(m_match_stack\.back\(\)->children\[0\]->identifier == AST_Node_Type::Dot_Access\) \{", body)
    if not mm:
        raise ExtractionBreak("Dot_Fun_Array: method-call work-around block not found")
    ob = body.index("{", mm.start())
    cb = chai2c.match_brace(chai2c._mask(body), ob)
    inner = body[ob:cb]
    if inner.count("m_match_stack.pop_back()") != 1 or inner.count("m_match_stack.push_back(") != 1:
        raise ExtractionBreak("Dot_Fun_Array: the work-around no longer pops one node and pushes one node")
    return body[:mm.start()] + "verif_method_call_fixup(self);" + body[cb + 1:]


def _base(prop):
    """the part every unit shares: Position (K1, bodies), enums and tables, Static_String, Depth_Counter (bodies),
    char_in_alphabet (body) and the lexers as contract-only declarations (their proofs are kernel K2)."""
    kb = KernelBuild("grammar", prop)
    hdr = chai2c.Header(HDR)
    cm = chai2c.Header(CM)
    kb.add(pk.KERNEL_HEADER)
    c1 = load_contracts("K1_position.contracts")
    c2 = load_contracts("K2_lexers.contracts")
    pk.emit_position(hdr, kb, c1, prop)
    kb.add("static inline char Position_peek(Position p) { return *Position_deref(&p); }")
    kb.add("#include \"verif_stl.h\"\ntypedef struct Parser { Position m_position; size_t m_current_parse_depth; vvec m_match_stack; size_t verif_unguarded; /* ghost */ } Parser;")
    kb.add(HEADER_EXTRA)
    kb.add("static inline ptrdiff_t vvec_distance_from(const vvec *v, int n) { VERIF_STD_PRE(n >= 0 && (size_t)n <= v->size, "
           "\"iterator begin() + n inside [begin(), end()]\"); return (ptrdiff_t)v->size - (ptrdiff_t)n; }")
    kb.add(pk.alphabet_enum(hdr, kb))
    kb.add(pk.parser_data(kb))
    etxt, prec_names = enum_block(cm, kb, "enum class Operator_Precedence", "Operator_Precedence_")
    kb.add(etxt)
    etxt, _ = enum_block(cm, kb, "enum class AST_Node_Type", "AST_Node_Type_")
    kb.add(etxt)
    kb.add(operators_table(hdr, kb, prec_names))
    pk.emit_static_string(kb, c2, prop)
    kb.add(pk.static_strings(hdr, kb))
    pk.emit_depth_counter(hdr, kb, c2, prop)
    for cname, anchor, csig, autos, raii in pk.LEXER_FUNCS:
        c = chai2c.contracts_for(c2, cname, prop)
        if cname == "Parser_char_in_alphabet":
            kb.emit_function(csig, hdr.slice_function(anchor), pk.lexer_rules(autos), c.fn, c.loops, cname)
        else:
            kb.emit_stub(csig, c.fn, cname)
    return kb, hdr


def build(prop, tier="quick"):
    base, hdr = _base(prop)
    cg = load_contracts("K13_grammar.contracts")

    def C(name):
        return chai2c.contracts_for(cg, name, prop)

    schema = C("SCHEMA_grammar").fn

    def clauses(name):
        c = C("Parser_" + name)
        extra = unguarded_req if (name in guarded_fn and not guarded_fn[name]) else []
        return schema + extra + c.fn, c.loops, c.ghost

    def sig(name, params):
        return "bool Parser_%s(Parser *self%s)" % (name, ", " + params if params else "")

    thr = throw_rule(pk.KINDMAP, HDR)
    # a function is depth-guarded when its first statement is `Depth_Counter dc{this};` (read from the source on every run)
    guarded_fn = {g[0]: bool(re.match(r"\s*Depth_Counter dc\{this\};", hdr.slice_function(g[1]).body)) for g in GRAMMAR}
    unguarded_req = C("SCHEMA_unguarded").fn
    universe = {"Parser_" + n for n in NAMES} | set(pk.REPLACED) | {"verif_build_match", "verif_method_call_fixup"}
    units = []
    for name, anchor, params, dc in GRAMMAR:
        cname = "Parser_" + name
        kb = KernelBuild("grammar_" + name, prop)
        kb.defines.append("VERIF_ALLOWED=KBIT(K_eval_error)")
        kb.parts = list(base.parts)
        kb.native_data = list(base.native_data)
        if not units:
            kb.slices = list(base.slices)
            kb.rules_fired = dict(base.rules_fired)
        # every other grammar function is its contract
        for oname, oparams in [(g[0], g[2]) for g in GRAMMAR] + ASSUMED:
            if oname != name:
                kb.emit_stub(sig(oname, oparams), clauses(oname)[0], "Parser_" + oname)
        kb.emit_stub("void verif_build_match(Parser *self, size_t t_match_start)", C("verif_build_match").fn, "verif_build_match")
        kb.emit_stub("void verif_method_call_fixup(Parser *self)", C("verif_method_call_fixup").fn, "verif_method_call_fixup")
        kb.add(sig(name, params) + ";")
        lits = Literals()
        tabs = []
        sl = hdr.slice_function(anchor)
        fn, loops, ghost = clauses(name)
        ghost = ["const size_t verif_u0 = self->verif_unguarded;"] + list(ghost)

        def pre(body, name=name, cname=cname, dc=dc, tabs=tabs, lits=lits):
            if name == "Dot_Fun_Array":
                body = method_call_fixup(body)
            b, n = thr(body, cname)
            b, n = replace_calls(b, r"\bm_match_stack\.(?:push_back|emplace_back)\(", lambda a: "vvec_emplace_back_lim(&m_match_stack)")
            if "for (const auto &" in b:
                b, t, n = range_for(b, lits)
                tabs.extend(t)
            if name in ("Keyword", "Symbol"):
                # block-level postcondition (C01: "never silently drops text"): a match that is taken back leaves the cursor
                # where the match was attempted (`start`, captured after the leading whitespace) - ghost code under cbmc only
                b, n = re.subn(r"\breturn retval;", 'VERIF_GHOST(__CPROVER_assert(retval || POFF == OFF(&start), "[P] a keyword / symbol that '
                               'is not accepted is not consumed either");) return retval;', b)
                if n != 1:
                    raise ExtractionBreak("%s: `return retval;` not found exactly once" % cname)
            guarded = bool(re.match(r"\s*Depth_Counter dc\{this\};", b))
            if not guarded and "Depth_Counter" in b:
                raise ExtractionBreak("%s: Depth_Counter is not the first statement" % cname)
            if guarded != guarded_fn[name]:
                raise ExtractionBreak("%s: Depth_Counter detection disagrees" % cname)
            if guarded:
                b, n = re.subn(r"\bDepth_Counter dc\{this\};", "Depth_Counter dc; Depth_Counter_ctor(&dc, self); VERIF_GHOST(self->verif_unguarded = 0;)", b)
            else:
                b = "VERIF_GHOST(self->verif_unguarded = verif_u0 + 1;)" + b
            # R9.raii: the destructor (and the ghost restore) run before every return (A2)
            b, n = re.subn(r"\breturn\s+([^;]+);", r"{ bool verif_r = (\1); %sVERIF_GHOST(self->verif_unguarded = verif_u0;) return verif_r; }"
                           % ("Depth_Counter_dtor(&dc); " if guarded else ""), b)
            if n < 1:
                raise ExtractionBreak("%s: no return statement" % cname)
            return b

        part_index = len(kb.parts)
        kb.emit_function(sig(name, params), sl, grammar_rules(lits), fn, loops, cname, pre=pre, ghost=ghost)
        for lit in lits.names:
            if len(lit) < 3:
                raise ExtractionBreak("empty keyword / symbol literal in %s" % cname)
        pre_txt = lits.decls() + "".join("static const Static_String *const verif_tab_%s[%d] = { %s };\n" % (var, len(names), ", ".join("&" + n for n in names))
                                         for var, names in tabs)
        kb.parts.insert(part_index, pre_txt)
        decls, args = [], []
        for p in [x.strip() for x in params.split(",") if x.strip()]:
            nm = re.findall(r"\w+", p)[-1]
            decls.append(re.sub(r"\bconst\b\s*(?=\w+\s+\w+$)", "", p) + ";")
            args.append(nm)
        kb.add("void h_%s(void) { Parser *self; %s %s(%s); VERIF_CANARY(\"%s returns normally\"); }"
               % (cname, nondet_bools(" ".join(decls)), cname, ", ".join(["self"] + args), cname))
        text = kb.text()
        body = _body_of(text, cname)
        callees = sorted(u for u in universe if u != cname and re.search(r"\b%s\(" % re.escape(u), body))
        t = Target(cname, "h_" + cname, replace=callees, objbits=10, solver="sat:cadical")
        t.rec = bool(re.search(r"\b%s\(" % cname, body))
        t.expect_loops = kb.nloops.get(cname, 0) > 0
        kb.targets.append(t)
        kb.functions = [cname]
        units.append(kb)
    u0 = units[0]
    u0.functions += ["Parser_%s (assumed contract)" % a[0] for a in ASSUMED] + ["verif_build_match (assumed contract: stack length = t_match_start + 1)",
                                                                                 "verif_method_call_fixup (assumed contract: stack length unchanged)"]
    u0.assumptions += [
        "A4, A5, A2 and the throw encoding as in kernel K2",
        "allocation succeeds: a push onto the match stack is assumed to find size() < 2^31-2 (as many nodes as A4 allows input bytes; std::length_error / bad_alloc are outside the property)",
        "assumed contracts of Num, Id, Quoted_String, Single_Quoted_String, Operator_Helper, build_match, is_operator (see kernels/grammar.py)",
        "A3: max_depth + 1 nested grammar frames fit the native stack",
    ]
    u0.static_facts.append(optimizer_cast_fact())
    u0.unverified += [
        "termination of Dot_Fun_Array's `while (has_more)` loop (its end-of-line branch steps the cursor back; no decreases clause)",
        "the AST surgery of Dot_Fun_Array's method-call work-around and every read of node children",
        "Num, Id (the __FUNC__ / __CLASS__ scans of the match stack), Quoted_String's interpolation parser, Single_Quoted_String",
    ]
    return units


def optimizer_cast_fact():
    """supporting static fact (scan of chaiscript_optimizer.hpp): the optimizer runs inside parse(); a boxed_cast<T>(v) there
    must not be able to throw bad_boxed_cast out of parse() - each one is either dominated by an `if` whose condition tests
    the type of the same value `v` for the same `T`, or sits in a try block whose handler catches std::exception."""
    op = chai2c.Header("include/chaiscript/language/chaiscript_optimizer.hpp")
    txt = chai2c.strip_comments(op.text)
    m = chai2c._mask(txt)
    bad, unknown, n = [], [], 0
    for mm in re.finditer(r"\bboxed_cast<(\w+)>\((\w+)\)", m):
        T, v = mm.group(1), mm.group(2)
        n += 1
        test = re.compile(r"\b%s\.get_type_info\(\)\.(?:bare_equal\(user_type<%s>\(\)\)|bare_equal_type_info\(typeid\(%s\)\))" % (re.escape(v), T, T))
        ok = False
        mentioned = False
        pos = mm.start()
        depth = 0
        i = pos
        while i > 0 and not ok:
            i -= 1
            ch = m[i]
            if ch == "}":
                depth += 1
            elif ch == "{":
                if depth > 0:
                    depth -= 1
                    continue
                # an enclosing block: what opens it?
                head = m[:i].rstrip()
                if head.endswith(")"):
                    cp = len(head) - 1
                    d, j = 0, cp
                    while j >= 0:
                        if m[j] == ")":
                            d += 1
                        elif m[j] == "(":
                            d -= 1
                            if d == 0:
                                break
                        j -= 1
                    kw = re.search(r"(\w+)\s*$", m[:j])
                    if kw and kw.group(1) == "if" and not re.search(r"\belse\s+if\s*$", m[:j]) or (kw and kw.group(1) == "if"):
                        if test.search(txt[j:cp + 1]):
                            ok = True
                        elif re.search(r"\b%s\b" % re.escape(v), m[j:cp + 1]):
                            mentioned = True  # tested in a form this scan does not know: undecided, never an alarm
                elif head.endswith("try"):
                    cb = chai2c.match_brace(m, i)
                    if re.match(r"\s*catch \(const std::exception &\)", m[cb + 1:]):
                        ok = True
        if not ok:
            (unknown if mentioned else bad).append("line %d: boxed_cast<%s>(%s)" % (txt.count("\n", 0, pos) + 1, T, v))
    return ("parse_time_optimizer_casts_are_type_tested_or_caught", False if bad else (None if unknown or n < 1 else True), "; ".join(["not type-tested: " + b for b in bad] + ["tested in an unknown form: " + u for u in unknown]) or "%d casts, each under a type test of the same value or a catch of std::exception" % n)


def _body_of(text, fname):
    mm = None
    for cand in re.finditer(r"^[A-Za-z][^\n;{}]*\b%s\(" % re.escape(fname), text, re.M):
        nxt = re.search(r"[;{]", chai2c._mask(text[cand.end():]))
        if nxt and nxt.group(0) == "{":
            ob = cand.end() + nxt.end() - 1
            cb = chai2c.match_brace(chai2c._mask(text), ob)
            return text[ob:cb]
    raise ExtractionBreak("definition of %s not found" % fname)
