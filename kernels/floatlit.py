"""Kernel K5d: parse_num<floating> (chaiscript_defines.hpp), used by buildFloat for every float / double /
long double literal.  Property C16 asks for the value within a few ulp; that bound is NOT decidable here (std::pow,
rounding analysis).  What is proved is the integer side of the function: for every text, no signed integer
arithmetic in it overflows and no float-to-integer conversion is out of range - undefined behaviour that would make
the literal's value arbitrary.  (A digit counter or scale kept in an `int` overflows after ten digits.)"""
import re

from common import (KernelBuild, Target, Rules, ExtractionBreak, base_rules, load_contracts, chai2c)

DF = "include/chaiscript/chaiscript_defines.hpp"

HEADER = r'''
#include "verif_stl.h"
int verif_thrown;
typedef struct vsv { const char *data; size_t len; } vsv;
#define SV_REQ(s) ((s).len <= 1000000 && __CPROVER_is_fresh((s).data, (s).len))
/* std::pow(a, b), [cmath.syn] overload resolution: an integer argument counts as double, the result has the widest of the
 * (promoted) argument types.  The value is arbitrary (accuracy of libm is not claimed); the ghost records in which type the
 * power was computed. */
int verif_pow_kind; /* ghost: 1 float, 2 double, 3 long double */
static inline float verif_powf(float a, float b) { float verif_r; verif_pow_kind = 1; return verif_r; }
static inline double verif_pow(double a, double b) { double verif_r; verif_pow_kind = 2; return verif_r; }
static inline long double verif_powl(long double a, long double b) { long double verif_r; verif_pow_kind = 3; return verif_r; }
#define VERIF_PROMOTE(x) _Generic((x), float: (x), long double: (x), default: (double)(x))
#define VERIF_POW(a, b) _Generic(VERIF_PROMOTE(a) + VERIF_PROMOTE(b), float: verif_powf, double: verif_pow, long double: verif_powl)((a), (b))
#ifdef VERIF_CBMC
#define VERIF_GHOST(x) x
#else
#define VERIF_GHOST(x)
#endif
'''


def build(prop, tier="quick"):
    kb = KernelBuild("floatlit", prop)
    contracts = load_contracts("K5d_floatlit.contracts")
    kb.add(HEADER)
    df = chai2c.Header(DF)
    sl = df.slice_function("[[nodiscard]] auto parse_num(const std::string_view t_str) -> typename std::enable_if<!std::is_integral<T>::value, T>::type")
    for tname, ctype in (("f32", "float"), ("f64", "double"), ("f80", "long double")):
        r = Rules("parse_num_" + tname)
        r.add("R9.rangefor", r"for \(const auto c : t_str\) \{", "for (size_t verif_i = 0; verif_i < t_str.len; ++verif_i) { const char c = t_str.data[verif_i];", min_fire=1)
        r.add("R9.brace_init", r"\bT base\{\};", "T base = 0;")
        r.add("R9.pow", r"\bstd::pow\(", "VERIF_POW(", min_fire=1)
        r.add("R6.fcast", r"(?<![\w>])T\(", "(T)(")
        r.extend(base_rules())
        r.add("R9.T", r"\bT\b", ctype)
        cname = "parse_num_" + tname
        c = chai2c.contracts_for(contracts, "parse_num", prop)
        kind = {"f32": 1, "f64": 2, "f80": 3}[tname]

        def pre(body, kind=kind):
            # block-level postcondition (C16: a literal is within a few ulp of its value IN ITS OWN TYPE): the power of ten that
            # scales a literal with an exponent is computed in that type - ghost code under cbmc only
            b, n = re.subn(r"\breturn exponent \? ([^;]+) : t;",
                           r"{ T verif_r = exponent ? (\1) : t; VERIF_GHOST(__CPROVER_assert(!exponent || verif_pow_kind >= %d, "
                           r'"[P] the power of ten of a literal with an exponent is computed in at least the precision of the literal type");) return verif_r; }' % kind, body)
            if n != 1:
                raise ExtractionBreak("parse_num<floating>: `return exponent ? ... : t;` not found")
            return b

        kb.emit_function("%s %s(vsv t_str)" % (ctype, cname), sl, r, c.fn, c.loops, cname, ghost=c.ghost, pre=pre)
        kb.add('void h_%s(void) { vsv s; %s(s); VERIF_CANARY("%s returns normally"); }' % (cname, cname, cname))
        t = Target(cname, "h_" + cname, objbits=8, solver="sat:cadical", timeout=1500, flags=["--signed-overflow-check", "--conversion-check", "--float-overflow-check"],
                   excluded=[r"arithmetic overflow on floating-point", r"NaN on"])
        t.expect_loops = True
        kb.targets.append(t)
    if tier == "thorough":
        rc, cases, err = _run_probe()
        kb.static_facts.append(("native battery (thorough tier): 22 floating literals within 4 ulp of strtof / strtod / strtold on the real engine",
                                rc == 0 and not cases, (err.strip() + " " + str(cases[:3]))[:400]))
    kb.assumptions += ["std::pow is any value (the result's accuracy is not claimed); floating overflow to infinity / NaN checks are excluded (defined behaviour in IEEE arithmetic)"]
    kb.unverified += ["the ulp accuracy of floating literals (the property's bound): not within CBMC's reach"]
    return kb


# ---- native replay: floating literals through the real engine against strtod / strtold (4 ulp)
def _run_probe(timeout=900):
    import json
    import subprocess
    import literals
    r = subprocess.run([literals.build_probe(), "floats"], stdout=subprocess.PIPE, stderr=subprocess.PIPE, timeout=timeout)
    cases = []
    for line in r.stdout.decode("utf-8", "replace").splitlines():
        try:
            cases.append(json.loads(line))
        except ValueError:
            pass
    return r.returncode, cases, r.stderr.decode("utf-8", "replace")[-300:]


def replay_fn(kb, t, pr, vals, order, rec):
    rc, cases, err = _run_probe()
    return {"reproduced": bool(cases), "probe": "native/probe_literals.cpp floats (real engine: 22 float / double / long double literals incl. many fractional digits, "
            "against strtof / strtod / strtold within 4 ulp)", "failing_cases": cases[:6], "probe_summary": err.strip()}


def replay_file(rec):
    cases = (rec.get("native_replay") or {}).get("failing_cases") or []
    if not cases:
        print("replay: no failing input recorded; failed obligation: %s :: %s" % (rec.get("obligation"), rec.get("description")))
        return 2
    rc, cs, err = _run_probe()
    if rc != 0:
        print("REPRODUCED on real code: %s" % cs[:6])
        return 1
    print("not reproduced")
    return 0
