"""Kernel K5b: ChaiScript_Parser::Char_Parser<std::string> - escape decoding
(process_hex / process_octal / process_unicode / parse and the catching destructor),
chaiscript_parser.hpp.  Properties C01 (only eval_error leaves the parser; nothing escapes the
destructor) and C16 (escape values, UTF-8 encoding, malformed escapes rejected)."""
import re

from common import (nondet_bools, KernelBuild, Target, Rules, ExtractionBreak, base_rules, load_contracts, throw_rule, chai2c)

HDR = "include/chaiscript/language/chaiscript_parser.hpp"
KINDMAP = {"eval_error": "K_eval_error"}

HEADER = r'''
#include "verif_stl.h"
int verif_thrown;
typedef struct Char_Parser {
  vtail *match;                /* string_type &match: (length, last 8 bytes) */
  bool is_escaped, is_interpolated, saw_interpolation_marker, is_octal, is_hex;
  size_t unicode_size;
  bool interpolation_allowed;
  vsmall octal_matches, hex_matches;
} Char_Parser;
/* ghost: decoded value of the pending digits at entry, computed by the specification below */
unsigned long long verif_spec_val;
size_t verif_spec_n;
_Bool verif_idle, verif_esc;
_Bool verif_oct0, verif_hex0; size_t verif_on0, verif_hn0, verif_us0; /* ghost: escape-collecting state at entry of parse() */
/* specification of the value of a digit string: positional notation, most significant digit first (loop-free, n <= 8) */
#define SPEC_STEP(i) if ((i) < s->n) v = v * base + (unsigned)verif_digit(s->d[i]);
static inline unsigned long long spec_value(const vsmall *s, unsigned base) {
  unsigned long long v = 0;
  SPEC_STEP(0) SPEC_STEP(1) SPEC_STEP(2) SPEC_STEP(3) SPEC_STEP(4) SPEC_STEP(5) SPEC_STEP(6) SPEC_STEP(7)
  return v;
}
#define ISHEX(c) (((c) >= '0' && (c) <= '9') || ((c) >= 'a' && (c) <= 'f') || ((c) >= 'A' && (c) <= 'F'))
#define ISOCT(c) ((c) >= '0' && (c) <= '7')
#define ALLHEX(s) ((s).n <= 8 && ((s).n <= 0 || ISHEX((s).d[0])) && ((s).n <= 1 || ISHEX((s).d[1])) && ((s).n <= 2 || ISHEX((s).d[2])) && ((s).n <= 3 || ISHEX((s).d[3])) \
   && ((s).n <= 4 || ISHEX((s).d[4])) && ((s).n <= 5 || ISHEX((s).d[5])) && ((s).n <= 6 || ISHEX((s).d[6])) && ((s).n <= 7 || ISHEX((s).d[7])))
#define ALLOCT(s) ((s).n <= 3 && ((s).n <= 0 || ISOCT((s).d[0])) && ((s).n <= 1 || ISOCT((s).d[1])) && ((s).n <= 2 || ISOCT((s).d[2])))
/* class invariant of Char_Parser between calls of parse() */
#define CPINV(p) (ALLHEX((p)->hex_matches) && ALLOCT((p)->octal_matches) && ((p)->unicode_size == 0 || (p)->unicode_size == 4 || (p)->unicode_size == 8) \
   && (!(p)->is_hex || (p)->hex_matches.n < 2) && ((p)->unicode_size == 0 || (p)->hex_matches.n < (p)->unicode_size) && (!(p)->is_octal || ((p)->octal_matches.n >= 1 && (p)->octal_matches.n < 3)) \
   && ((p)->is_octal + (p)->is_hex + ((p)->unicode_size > 0) <= 1) && ((p)->is_octal || (p)->octal_matches.n == 0) && ((p)->is_hex || (p)->unicode_size > 0 || (p)->hex_matches.n == 0))
#define CPREQ(p) (__CPROVER_is_fresh(p, sizeof(*(p))) && __CPROVER_is_fresh((p)->match, sizeof(vtail)) && (p)->match->len <= 1000000000)
#define MLEN(p) ((p)->match->len)
/* byte at index k of the string, for k within the last 8 positions */
#define MB(p, k) ((p)->match->t[7 - ((p)->match->len - 1 - (k))])
'''

FIELDS = ["match", "is_escaped", "is_interpolated", "saw_interpolation_marker", "is_octal", "is_hex", "unicode_size",
          "interpolation_allowed", "octal_matches", "hex_matches"]


def rules():
    r = base_rules()
    r.add("R9.sm.empty", r"\b(hex_matches|octal_matches)\.empty\(\)", r"vsmall_empty(&\1)")
    r.add("R9.sm.size", r"\b(hex_matches|octal_matches)\.size\(\)", r"vsmall_size(&\1)")
    r.add("R9.sm.front", r"\b(hex_matches|octal_matches)\.(front|back)\(\)", r"vsmall_\2(&\1)")
    r.add("R9.sm.clear", r"\b(hex_matches|octal_matches)\.clear\(\)", r"vsmall_clear(&\1)")
    r.add("R9.sm.push", r"\b(hex_matches|octal_matches)\.push_back\(", r"vsmall_push_back(&\1, ")
    r.add("R9.m.push", r"\bmatch\.push_back\(", "vtail_push_back(match, ")
    r.add("R9.m.pluseq", r"\bmatch \+= ([^;]+);", r"vtail_push_back(match, \1);")
    r.add("R9.m.append", r"\bmatch\.append\(", "vtail_append(match, ")
    r.add("R8.auto.val", r"\bauto val = stoll\((\w+), NULL, (\d+)\);", r"long long val = verif_stoll(&\1, \2);")
    r.add("R9.stoll", r"(?<![\w.>])stoll\((\w+), NULL, (\d+)\)", r"verif_stoll(&\1, \2)")
    r.add("R8.auto.ch_stoi", r"\bconst auto ch = \(uint32_t\)\(std::stoi\(hex_matches, NULL, 16\)\);", "const uint32_t ch = (uint32_t)(verif_stoi(&hex_matches, 16));")
    r.add("R8.ch_stoul", r"\bstd::stoul\(hex_matches, NULL, 16\)", "verif_stoul(&hex_matches, 16)")
    r.add("R8.auto.sizes", r"\bconst auto (match_size|u_size) = ", r"const size_t \1 = ")
    r.add("R6.char_type", r"\bchar_type\(([^()]+)\)", r"((char)(\1))")
    r.add("R6.sizeof_char_type", r"\bsizeof\(char_type\)", "sizeof(char)")
    r.add("R6.char_type_decl", r"\bchar_type\b", "char")
    r.add("R4.sib", r"(?<![\w.>])(process_octal|process_hex|process_unicode|finish)\(\)", r"Char_Parser_\1(self)")
    r.add("R8.auto.ch_cond", r"\bconst auto ch = \(u_size == match_size\) \? ", "const uint32_t ch = (u_size == match_size) ? ")
    # `ch` is a uint32_t in every form of its initialiser (it is always a cast to uint32_t or a conditional of two)
    r.add("R8.auto.ch_any", r"\bconst auto ch = (?=\(uint32_t\)\()", "const uint32_t ch = ")
    r.add("R6.uint32_ctor", r"\buint32_t\(0\)", "((uint32_t)0)")
    r.add("R1.field", r"(?<![\w.>])(" + "|".join(FIELDS) + r")\b", r"self->\1")
    return r


def strip_try(body):
    """R9: `try { A } catch (const std::invalid_argument &) { } catch (const exception::eval_error &) { ... }`
    in the destructor: keep A; the caught kinds are the kinds allowed at the throw sites of this
    unit (VERIF_ALLOWED), anything else would leave a destructor = std::terminate."""
    m = chai2c._mask(body)
    mm = re.search(r"\btry\s*\{", m)
    if not mm:
        raise ExtractionBreak("destructor: try block not found")
    ob = mm.end() - 1
    cb = chai2c.match_brace(m, ob)
    rest = m[cb + 1:]
    kinds = re.findall(r"catch\s*\(const ([\w:]+) &\)\s*\{", rest)
    if sorted(kinds) != ["exception::eval_error", "std::invalid_argument"]:
        raise ExtractionBreak("destructor: catch clauses changed: %r" % kinds)
    tail = rest
    for _ in kinds:
        k = re.search(r"catch\s*\([^)]*\)\s*\{", tail)
        e = chai2c.match_brace(tail, k.end() - 1)
        tail = tail[e + 1:]
    if tail.strip():
        raise ExtractionBreak("destructor: code after the catch clauses")
    return body[:mm.start()] + "{" + body[ob + 1:cb] + "}"


def build(prop, tier="quick"):
    hdr = chai2c.Header(HDR)
    contracts = load_contracts("K5b_charparser.contracts")
    thr = throw_rule(KINDMAP, HDR)
    cps = hdr.slice_block("struct Char_Parser")
    units = []
    for unit, allowed in (("charparser", "KBIT(K_eval_error)"), ("charparser_dtor", "(KBIT(K_eval_error) | KBIT(K_invalid_argument))")):
        kb = KernelBuild(unit, prop)
        units.append(kb)
        kb.add("#define VERIF_ALLOWED " + allowed)
        kb.add(HEADER)
        kb.add("void Char_Parser_process_hex(Char_Parser *self);\nvoid Char_Parser_process_octal(Char_Parser *self);\nvoid Char_Parser_process_unicode(Char_Parser *self);\nvoid Char_Parser_finish(Char_Parser *self);")

        def C(name):
            return chai2c.contracts_for(contracts, name, prop)

        def emit(anchor, csig, cname, pre=None):
            sl = hdr.slice_function(anchor, after=cps.ob)
            if sl.cb > cps.cb:
                raise ExtractionBreak(cname + " not inside struct Char_Parser")
            c = C(cname)

            def p2(b):
                b2, n = thr(b, cname)
                return pre(b2) if pre else b2

            kb.emit_function(csig, sl, rules(), c.fn, c.loops, cname, pre=p2, ghost=c.ghost)

        emit("void process_hex()", "void Char_Parser_process_hex(Char_Parser *self)", "Char_Parser_process_hex")
        emit("void process_octal()", "void Char_Parser_process_octal(Char_Parser *self)", "Char_Parser_process_octal")
        emit("void process_unicode()", "void Char_Parser_process_unicode(Char_Parser *self)", "Char_Parser_process_unicode")
        emit("void finish()", "void Char_Parser_finish(Char_Parser *self)", "Char_Parser_finish")
        if unit == "charparser":
            emit("void parse(const char_type t_char, const int line, const int col, const std::string &filename)",
                 "void Char_Parser_parse(Char_Parser *self, const char t_char, const int line, const int col)", "Char_Parser_parse")
            for fn in ("process_hex", "process_octal", "process_unicode", "finish"):
                kb.add('void h_Char_Parser_%s(void) { Char_Parser *p; Char_Parser_%s(p); VERIF_CANARY("returns normally"); }' % (fn, fn))
                t = Target("Char_Parser_" + fn, "h_Char_Parser_" + fn, loops=False)
                kb.targets.append(t)
            kb.add('void h_Char_Parser_parse(void) { Char_Parser *p; char c; int l, k; Char_Parser_parse(p, c, l, k); VERIF_CANARY("returns normally"); }')
            t = Target("Char_Parser_parse", "h_Char_Parser_parse", loops=False)
            kb.targets.append(t)
        else:
            emit("~Char_Parser()", "void Char_Parser_dtor(Char_Parser *self)", "Char_Parser_dtor", pre=strip_try)
            kb.add('void h_Char_Parser_dtor(void) { Char_Parser *p; Char_Parser_dtor(p); VERIF_CANARY("returns normally"); }')
            t = Target("Char_Parser_dtor", "h_Char_Parser_dtor", loops=False)
            kb.targets.append(t)
        kb.assumptions += [
            "std::stoll/stoul/stoi are modelled by verif_sto* (verif_stl.h) following [string.conversions] for sign-less digit strings",
            "hex_matches / octal_matches hold at most %d characters (ghost capacity; each push_back is proved to stay within it; the class "
            "invariant CPINV bounds them by 8 and 3)" % VCAP,
            "the output string has room for 8 more bytes (allocation succeeds)",
            "a throw of a kind the destructor's two handlers do not catch would call std::terminate: the destructor unit allows exactly "
            "{eval_error, invalid_argument} at its throw sites; the parse() unit allows only eval_error (what may leave the parser)",
        ]
        kb.unverified += ["Quoted_String / Single_Quoted_String driving loops (interpolation scanning, AST building)",
                          "Char_Parser_Helper / UTF-16/32 string types (CHAISCRIPT_UTF16_UTF32 builds)"]
    return units


VCAP = 8
