"""build and run small native programs against the real headers in /repo (real-code data
generators, twin tests, replay).  Binaries are cached under /verif/build/native keyed by the
hash of the source and of every file under /repo/include, so they are rebuilt exactly when
the tree changed."""
import hashlib
import os
import subprocess

import chai2c

VERIF = os.path.abspath(os.path.join(os.path.dirname(os.path.abspath(__file__)), ".."))
CACHE = os.path.join(VERIF, "build", "native")
_tree = None


def tree_hash():
    global _tree
    if _tree is None:
        h = hashlib.sha256()
        root = os.path.join(chai2c.REPO, "include")
        for d, dirs, files in sorted(os.walk(root)):
            dirs.sort()
            for f in sorted(files):
                p = os.path.join(d, f)
                h.update(p.encode())
                with open(p, "rb") as fh:
                    h.update(fh.read())
        _tree = h.hexdigest()[:16]
    return _tree


def build(name, src_path, flags=(), lang="c++", extra_srcs=(), extra_key=""):
    os.makedirs(CACHE, exist_ok=True)
    h = hashlib.sha256()
    for p in [src_path] + list(extra_srcs):
        with open(p, "rb") as f:
            h.update(f.read())
    h.update(repr(flags).encode())
    h.update(extra_key.encode())
    key = "%s-%s-%s" % (name, tree_hash(), h.hexdigest()[:12])
    out = os.path.join(CACHE, key)
    if os.path.exists(out):
        return out
    # drop stale builds of the same tool
    for f in os.listdir(CACHE):
        if f.startswith(name + "-"):
            try:
                os.remove(os.path.join(CACHE, f))
            except OSError:
                pass
    cc = ["g++", "-std=c++17"] if lang == "c++" else ["gcc", "-std=gnu11"]
    cmd = cc + ["-O0", "-w", "-I", os.path.join(chai2c.REPO, "include"), "-I", os.path.join(VERIF, "stubs")] + list(flags) \
        + [src_path] + list(extra_srcs) + ["-o", out + ".tmp", "-ldl", "-lpthread"]
    p = subprocess.run(cmd, stdout=subprocess.PIPE, stderr=subprocess.PIPE)
    if p.returncode != 0:
        raise chai2c.ExtractionBreak("native build of %s failed:\n%s" % (name, p.stderr.decode()[-3000:]))
    os.rename(out + ".tmp", out)
    return out


def run(path, args=(), inp=None, timeout=120):
    p = subprocess.run([path] + list(args), input=inp, stdout=subprocess.PIPE, stderr=subprocess.PIPE, timeout=timeout)
    return p.returncode, p.stdout, p.stderr
