#!/usr/bin/env python3
"""setup: offline tool presence check and pre-build of the native data generators."""
import os
import shutil
import subprocess
import sys

HERE = os.path.dirname(os.path.abspath(__file__))
sys.path.insert(0, HERE)
sys.path.insert(0, os.path.join(HERE, "..", "kernels"))
ok = True
for tool in ("cbmc", "goto-cc", "goto-instrument", "gcc", "g++", "python3", "timeout"):
    p = shutil.which(tool)
    print("%-16s %s" % (tool, p or "MISSING"))
    ok = ok and bool(p)
if not ok:
    sys.exit(1)
print(subprocess.run(["cbmc", "--version"], stdout=subprocess.PIPE).stdout.decode().strip())
import native  # noqa: E402
VERIF = os.path.abspath(os.path.join(HERE, ".."))
for name, src in (("gen_parser_data", "gen_parser_data.cpp"), ("gen_hash", "gen_hash.cpp")):
    print("built", native.build(name, os.path.join(VERIF, "native", src)))
sys.exit(0)
