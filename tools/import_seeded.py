#!/usr/bin/env python3
"""import_seeded.py <worktree> <property-id>: copy confirmed mutants from <worktree>/mutants/m*/
into /verif/seeded/<ID>-m<k>/ (patch.diff, demonstration, notes, meta.json).  Only mutants whose
confirm.txt shows 295/295 tests, a failing demo with the change and a passing demo without it."""
import json
import os
import re
import shutil
import sys

wt, pid = sys.argv[1], sys.argv[2]
dst_root = "/verif/seeded"
for m in sorted(os.listdir(os.path.join(wt, "mutants"))):
    d = os.path.join(wt, "mutants", m)
    cf = os.path.join(d, "confirm.txt")
    if not os.path.exists(cf):
        print(m, "no confirm.txt")
        continue
    c = open(cf).read()
    ok = "0 tests failed out of 295" in c and re.search(r"demo-with-mutant exit=(?!0\b)\d+", c) and "demo-clean exit=0" in c
    if not ok:
        print(pid, m, "NOT CONFIRMED:", c.replace("\n", " | "))
        continue
    dst = os.path.join(dst_root, "%s-%s" % (pid, m))
    os.makedirs(dst, exist_ok=True)
    for f in os.listdir(d):
        if f in ("demo", "build.log") or f.endswith((".o", ".log")) and f not in ("run_mutant.log", "run_clean.log"):
            continue
        p = os.path.join(d, f)
        if os.path.isfile(p) and os.path.getsize(p) < 200000 and not os.access(p, os.X_OK) or f == "run.sh":
            shutil.copy(p, os.path.join(dst, f))
    notes = open(os.path.join(d, "notes.txt")).read() if os.path.exists(os.path.join(d, "notes.txt")) else ""
    files = re.findall(r"^\+\+\+ b/(\S+)", open(os.path.join(d, "patch.diff")).read(), re.M)
    meta = {"property": pid, "mutant": m, "files_changed": files,
            "needs_to_manifest": notes.strip().split("\n\n")[0][:1500],
            "confirmed_by": "tools/confirm_seeded.sh in a scratch worktree: patch applied, full build, ctest, demo with and without the change",
            "confirmation": c.strip().split("\n"),
            "origin": "independent sub-agent given only the property text and its own worktree"}
    json.dump(meta, open(os.path.join(dst, "meta.json"), "w"), indent=1)
    print(pid, m, "imported ->", dst)
