"""property -> kernels, level, explanation, assumptions, replay."""
import json
import os
import sys

import runner
import engine_probe

VERIF = runner.VERIF


def by_kernel(table, default=None):
    """replay dispatcher: the native probe belongs to the kernel the failing obligation lives in"""
    def fn(kb, t, pr, vals, order, rec):
        f = table.get(kb.kernel, default)
        return f(kb, t, pr, vals, order, rec) if f else None
    return fn


def by_kernel_file(table):
    def fn(rec):
        f = table.get(rec.get("kernel"))
        if not f:
            print("no native replay for kernel %s; obligation: %s" % (rec.get("kernel"), rec.get("obligation")))
            return 2
        return f(rec)
    return fn




def _known():
    p = os.path.join(VERIF, "known_findings.json")
    if os.path.exists(p):
        return json.load(open(p)).get("findings", [])
    return []


def run(pid, tier, seed, keep=False):
    if pid not in PROPS:
        print("property %s is not claimed (see MANIFEST.json not_applicable)" % pid)
        return 2
    cfg = PROPS[pid]()
    return runner.run_property(pid, tier, cfg["builders"], seed=seed, replay_fn=cfg.get("replay_fn"), known=_known(),
                               level=cfg.get("level", "proof"), explanation=cfg.get("explanation"),
                               extra_assumptions=cfg.get("assumptions", ()), keep=keep)


def replay(pid, path):
    rec = json.load(open(path))
    cfg = PROPS[pid]()
    fn = cfg.get("replay_file_fn")
    if not fn:
        print("no native replay for %s; obligation: %s" % (pid, rec.get("obligation")))
        return 2
    return fn(rec)


def _c20():
    import parser as pk
    import locations as lo
    return {"builders": [pk.build, lo.build], "level": "other", "explanation": "cursor coordinate lemmas",
            "replay_fn": pk.replay_fn, "replay_file_fn": pk.replay_file}


def _c01():
    import parser as pk
    import charparser as ck
    import grammar as gk
    return {"builders": [pk.build, ck.build, gk.build], "level": "other", "explanation": "lexer/cursor kernel and the grammar functions above it",
            "replay_fn": pk.replay_fn, "replay_file_fn": pk.replay_file}


def _c05():
    import number as nk
    return {"builders": [nk.build], "level": "proof", "explanation": "Boxed_Number::go / unary oper, all instantiations",
            "replay_fn": nk.replay_fn, "replay_file_fn": nk.replay_file}


def _c07():
    import number as nk
    import gate as gk
    eng = engine_probe.replay_fn_for({"C04": "c04", "C06": "c06", "C07": "c07", "C19": "c19"})
    return {"builders": [gk.build, nk.build], "level": "proof", "explanation": "const gate: Data ctor invariant, verify_type*, cast helpers, go/unary frame",
            "replay_fn": by_kernel({"gate": eng}, default=nk.replay_fn),
            "replay_file_fn": lambda rec: (engine_probe.replay_file(rec) if rec.get("kernel") == "gate" else nk.replay_file(rec))}


def _c06():
    import gate as gk
    import dispatchk as dk
    return {"builders": [gk.build, dk.build], "level": "other", "explanation": "type gate and arity gates",
            "replay_fn": engine_probe.replay_fn_for({"C04": "c04", "C06": "c06", "C07": "c07", "C19": "c19"}), "replay_file_fn": engine_probe.replay_file}


def _c09():
    import stack as sk
    import scopeopt as so
    return {"builders": [sk.build, so.build], "level": "proof", "explanation": "scope/call stack pairing lemmas and RAII guard lemmas"}


def _c19():
    import loader as lk
    import usek as uk
    eng = engine_probe.replay_fn_for({"C04": "c04", "C06": "c06", "C07": "c07", "C19": "c19"})
    return {"builders": [lk.build, uk.build], "level": "other", "explanation": "file loader (content = bytes minus one leading BOM) and use() bookkeeping",
            "replay_fn": by_kernel({"use": eng}, default=lk.replay_fn),
            "replay_file_fn": lambda rec: (engine_probe.replay_file(rec) if rec.get("kernel") == "use" else lk.replay_file(rec))}


def _c16():
    import charparser as ck
    import keywords as kw
    import literals as lk
    import floatlit as fk
    return {"replay_fn": by_kernel({"keywords": kw.replay_fn, "literals": lk.replay_fn, "floatlit": fk.replay_fn}), "replay_file_fn": by_kernel_file({"keywords": kw.replay_file, "literals": lk.replay_file, "floatlit": fk.replay_file}),
            "builders": [ck.build, kw.build, lk.build, fk.build], "level": "other", "explanation": "escape decoding"}


def _c12():
    import stl as sk
    return {"builders": [sk.build], "level": "other", "explanation": "C++ wrapper layer of the built-in containers: every registered sequence/string/range callable",
            "replay_fn": sk.replay_fn, "replay_file_fn": sk.replay_file}


def _c18():
    import jsonk as jk
    return {"builders": [jk.build], "level": "other", "explanation": "JSON tokenizer safety/termination/depth and per-byte string round trip",
            "replay_fn": jk.replay_fn, "replay_file_fn": jk.replay_file}


def _c04():
    import lookup as lu
    import scopeopt as so
    return {"builders": [lu.build, so.build], "level": "other", "explanation": "variable lookup: hint encoding round trip, innermost-first search (bounded), find(s, hint)",
            "replay_fn": engine_probe.replay_fn_for({"C04": "c04", "C06": "c06", "C07": "c07", "C19": "c19"}), "replay_file_fn": engine_probe.replay_file}


PROPS = {"C04": _c04, "C18": _c18, "C12": _c12, "C16": _c16, "C19": _c19, "C09": _c09, "C07": _c07, "C06": _c06, "C20": _c20, "C01": _c01, "C05": _c05}
