"""property -> kernels, level, explanation, assumptions, replay."""
import json
import os
import sys

import runner

VERIF = runner.VERIF


def _known():
    p = os.path.join(VERIF, "known_findings.json")
    if os.path.exists(p):
        return json.load(open(p)).get("findings", [])
    return []


def run(pid, tier, seed, keep=False):
    if pid not in PROPS:
        print("property %s is not claimed (see MANIFEST.json not_applicable)" % pid)
        return 2
    cfg = PROPS[pid]()
    return runner.run_property(pid, tier, cfg["builders"], seed=seed, replay_fn=cfg.get("replay_fn"), known=_known(),
                               level=cfg.get("level", "proof"), explanation=cfg.get("explanation"),
                               extra_assumptions=cfg.get("assumptions", ()), keep=keep)


def replay(pid, path):
    rec = json.load(open(path))
    cfg = PROPS[pid]()
    fn = cfg.get("replay_file_fn")
    if not fn:
        print("no native replay for %s; obligation: %s" % (pid, rec.get("obligation")))
        return 2
    return fn(rec)


def _c20():
    import parser as pk
    return {"builders": [pk.build], "level": "other", "explanation": "cursor coordinate lemmas",
            "replay_fn": pk.replay_fn, "replay_file_fn": pk.replay_file}


def _c01():
    import parser as pk
    return {"builders": [pk.build], "level": "other", "explanation": "lexer/cursor kernel",
            "replay_fn": pk.replay_fn, "replay_file_fn": pk.replay_file}


def _c05():
    import number as nk
    return {"builders": [nk.build], "level": "proof", "explanation": "Boxed_Number::go / unary oper, all instantiations",
            "replay_fn": nk.replay_fn, "replay_file_fn": nk.replay_file}


PROPS = {"C20": _c20, "C01": _c01, "C05": _c05}
