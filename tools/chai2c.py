"""chai2c core: cut functions out of /repo headers and transliterate a closed set of
C++ idioms to C.  Everything that is not understood aborts (ExtractionBreak), never
passes half-translated.  See DESIGN.md section 3."""
import hashlib
import os
import re

REPO = os.environ.get("VERIF_REPO", "/repo")


class ExtractionBreak(Exception):
    pass


def _mask(text):
    """Return text with string/char literals and comments replaced by same-length
    filler (so brace matching and regex anchors ignore them), keeping newlines."""
    out = []
    i, n = 0, len(text)
    while i < n:
        c = text[i]
        if text.startswith("//", i):
            j = text.find("\n", i)
            j = n if j < 0 else j
            out.append(" " * (j - i))
            i = j
        elif text.startswith("/*", i):
            j = text.find("*/", i + 2)
            j = n if j < 0 else j + 2
            out.append("".join(ch if ch == "\n" else " " for ch in text[i:j]))
            i = j
        elif c == '"' or c == "'":
            j = i + 1
            while j < n and text[j] != c:
                j += 2 if text[j] == "\\" else 1
            j = min(j + 1, n)
            out.append(c + "_" * (j - i - 2) + c if j - i >= 2 else text[i:j])
            i = j
        else:
            out.append(c)
            i += 1
    return "".join(out)


def strip_comments(text):
    """blank out // and /* */ comments (keeping newlines); literals untouched."""
    m = _mask(text)
    res = list(text)
    i, n = 0, len(text)
    while i < n:
        if text.startswith("//", i) and m[i] == " ":
            j = text.find("\n", i)
            j = n if j < 0 else j
            for k in range(i, j):
                res[k] = " "
            i = j
        elif text.startswith("/*", i) and m[i] == " ":
            j = text.find("*/", i + 2)
            j = n if j < 0 else j + 2
            for k in range(i, j):
                if res[k] != "\n":
                    res[k] = " "
            i = j
        else:
            i += 1
    return "".join(res)


def match_brace(masked, open_idx, open_ch="{", close_ch="}"):
    assert masked[open_idx] == open_ch
    depth = 0
    for i in range(open_idx, len(masked)):
        ch = masked[i]
        if ch == open_ch:
            depth += 1
        elif ch == close_ch:
            depth -= 1
            if depth == 0:
                return i
    raise ExtractionBreak("unbalanced %s at %d" % (open_ch, open_idx))


class Header:
    def __init__(self, relpath):
        self.relpath = relpath
        self.path = os.path.join(REPO, relpath)
        try:
            with open(self.path, encoding="utf-8", errors="surrogateescape") as f:
                self.text = f.read()
        except OSError as e:
            raise ExtractionBreak("cannot read %s: %s" % (self.path, e))
        self.masked = _mask(self.text)

    def line_of(self, idx):
        return self.text.count("\n", 0, idx) + 1

    def find_anchor(self, anchor, after=0, unique=True):
        """anchor: literal C++ signature text; whitespace-insensitive.  Returns
        (start, end) indices of the match in the file."""
        toks = tokenize_ws(anchor)
        pat = r"\s*".join(re.escape(tok) for tok in toks)
        if re.fullmatch(r"\w+", toks[-1]):
            pat += r"(?!\w)"
        if re.fullmatch(r"\w+", toks[0]):
            pat = r"(?<!\w)" + pat
        ms = list(re.finditer(pat, self.masked[after:]))
        # the masked text hides string contents; re-check against real text
        ms = [m for m in ms if re.fullmatch(pat, self.text[after + m.start():after + m.end()])]
        if not ms:
            raise ExtractionBreak("anchor not found in %s: %r" % (self.relpath, anchor))
        if unique and len(ms) > 1:
            raise ExtractionBreak("anchor ambiguous (%d) in %s: %r" % (len(ms), self.relpath, anchor))
        return after + ms[0].start(), after + ms[0].end()

    def slice_function(self, anchor, after=0, unique=True):
        """Return Slice for the function whose signature text starts with anchor:
        body is the brace-matched block following the anchor."""
        s, e = self.find_anchor(anchor, after, unique)
        ob = self.masked.find("{", e)
        if ob < 0:
            raise ExtractionBreak("no body after anchor %r" % anchor)
        between = self.masked[e:ob]
        if ";" in between:
            raise ExtractionBreak("anchor %r is a declaration, not a definition" % anchor)
        cb = match_brace(self.masked, ob)
        return Slice(self, anchor, s, ob, cb)

    def slice_block(self, anchor, after=0):
        """anchor ends right before the '{' of a block (struct/enum/namespace)."""
        return self.slice_function(anchor, after)


class Slice:
    def __init__(self, hdr, anchor, start, ob, cb):
        self.hdr = hdr
        self.anchor = anchor
        self.start, self.ob, self.cb = start, ob, cb
        self.sig_tail = hdr.text[start:ob]  # signature incl. anything up to '{'
        self.body = strip_comments(hdr.text[ob + 1:cb])  # without outer braces
        self.line0 = hdr.line_of(start)
        self.line1 = hdr.line_of(cb)
        self.sha = hashlib.sha256(hdr.text[start:cb + 1].encode("utf-8", "surrogateescape")).hexdigest()[:16]

    def where(self):
        return "%s:%d-%d" % (self.hdr.relpath, self.line0, self.line1)


def tokenize_ws(s):
    """split on whitespace and around punctuation so that anchors are insensitive to
    formatting."""
    return re.findall(r"[A-Za-z_0-9]+|\S", s)


class Rules:
    """ordered regex rewrite rules with firing counts."""

    def __init__(self, name):
        self.name = name
        self.rules = []
        self.fired = {}

    def add(self, rid, pattern, repl, min_fire=0, flags=0):
        self.rules.append((rid, re.compile(pattern, flags), repl, min_fire))
        return self

    def extend(self, other):
        self.rules.extend(other.rules)
        return self

    def apply(self, text, ctx=""):
        for rid, rx, repl, min_fire in self.rules:
            text, n = rx.subn(repl, text)
            self.fired[rid] = self.fired.get(rid, 0) + n
            if n < min_fire:
                raise ExtractionBreak("must-fire rule %s fired %d < %d in %s" % (rid, n, min_fire, ctx))
        return text


FORBIDDEN = [
    (r"::", "scope operator"),
    (r"\bauto\b", "auto"),
    (r"\btemplate\b", "template"),
    (r"\bthis\b", "this"),
    (r"\bthrow\b", "throw"),
    (r"\btry\b", "try"),
    (r"\bcatch\b", "catch"),
    (r"\bnew\b", "new"),
    (r"\bdelete\b", "delete"),
    (r"\bstd\b", "std"),
    (r"\bnullptr\b", "nullptr"),
    (r"\bconstexpr\b", "constexpr"),
    (r"\bnoexcept\b", "noexcept"),
    (r"\b(static|const|dynamic|reinterpret)_cast\b", "C++ cast"),
    (r"\boperator\b", "operator"),
    (r"\[\s*[&=]?\s*\]\s*\(", "lambda"),
    (r"\busing\b", "using"),
    (r"\bdecltype\b", "decltype"),
]


def forbidden_scan(ctext, ctx=""):
    """C++-only tokens must be gone.  (Reference declarators and anything else that
    is not C are caught by the mandatory gcc -fsyntax-only pass of the runner.)"""
    m = _mask(ctext)
    for pat, what in FORBIDDEN:
        mm = re.search(pat, m)
        if mm:
            ln = m.count("\n", 0, mm.start()) + 1
            raise ExtractionBreak("forbidden token (%s) left after rewriting in %s line %d: %r"
                                  % (what, ctx, ln, ctext.splitlines()[ln - 1].strip()))


def find_loops(body):
    """Return list of indices (position right after the closing ')' of the loop
    header) for each for/while loop in source order.  'do ... while(...);' is
    rejected (not in the rule set)."""
    m = _mask(body)
    if re.search(r"\bdo\b", m):
        raise ExtractionBreak("do-while loop not in the rule set")
    res = []
    for mm in re.finditer(r"\b(for|while)\b\s*\(", m):
        op = mm.end() - 1
        cp = match_brace(m, op, "(", ")")
        res.append(cp + 1)
    return res


def splice_loop_contracts(body, loop_contracts, ctx=""):
    """loop_contracts: dict ordinal(1-based)->text.  Number of loops must equal the
    number of loop contracts given."""
    pos = find_loops(body)
    if not pos and loop_contracts:
        # the loops this function used to have are gone (e.g. replaced by a closed form): nothing to splice;
        # the function contract still applies and decides whether the new body is right
        return body
    if len(pos) != len(loop_contracts):
        raise ExtractionBreak("%s: %d loops in source but %d loop contracts" % (ctx, len(pos), len(loop_contracts)))
    out = body
    for k in range(len(pos), 0, -1):
        if k not in loop_contracts:
            raise ExtractionBreak("%s: no contract for loop %d" % (ctx, k))
        p = pos[k - 1]
        out = out[:p] + "\n" + loop_contracts[k] + "\n" + out[p:]
    return out


def eval_preproc(body, defined):
    """Evaluate #ifdef/#ifndef/#if defined()/#else/#endif inside a slice for the
    default build configuration; drop #pragma lines.  'defined' is the set of
    macros regarded as defined."""
    out = []
    stack = []  # (active_before, this_branch_active, any_taken)
    active = True
    for line in body.split("\n"):
        s = line.strip()
        if s.startswith("#"):
            d = s[1:].strip()
            if d.startswith("pragma"):
                out.append("")
                continue
            mm = re.match(r"(ifdef|ifndef)\s+(\w+)", d)
            if mm:
                cond = (mm.group(2) in defined) ^ (mm.group(1) == "ifndef")
                stack.append((active, cond))
                active = active and cond
                out.append("")
                continue
            mm = re.match(r"if\s+(.*)", d)
            if mm:
                expr = mm.group(1)
                expr = re.sub(r"defined\s*\(\s*(\w+)\s*\)", lambda k: "True" if k.group(1) in defined else "False", expr)
                expr = expr.replace("&&", " and ").replace("||", " or ").replace("!", " not ")
                if not re.fullmatch(r"[\sA-Za-z()]*", expr):
                    raise ExtractionBreak("preprocessor condition not understood: " + d)
                cond = bool(eval(expr, {"__builtins__": {}}, {"True": True, "False": False}))
                stack.append((active, cond))
                active = active and cond
                out.append("")
                continue
            if d.startswith("else"):
                prev, cond = stack.pop()
                stack.append((prev, not cond))
                active = prev and not cond
                out.append("")
                continue
            if d.startswith("endif"):
                prev, _ = stack.pop()
                active = prev
                out.append("")
                continue
            raise ExtractionBreak("preprocessor directive not in rule set: " + s)
        out.append(line if active else "")
    if stack:
        raise ExtractionBreak("unbalanced preprocessor conditionals in slice")
    return "\n".join(out)


def parse_contracts(path):
    """Contract file format: see DESIGN.md appendix.
    @fn NAME @props C01,C20      starts a function section for these properties
    @loop N                       subsequent clauses go to loop N
    @class X  clause-text         one clause (may be continued on following lines
                                  that start with whitespace)
    Lines starting with '#' are comments.
    Returns {fn: [ {props:set, fn:[(cls,text)], loops:{n:[(cls,text)]}} ]}"""
    res = {}
    cur = None
    tgt = None
    with open(path) as f:
        for raw in f:
            line = raw.rstrip("\n")
            if not line.strip() or line.lstrip().startswith("#"):
                continue
            if line.startswith("@fn"):
                mm = re.match(r"@fn\s+(\w+)\s+@props\s+([\w,*]+)\s*$", line)
                if not mm:
                    raise ValueError("bad @fn line: " + line)
                cur = {"props": set(mm.group(2).split(",")), "fn": [], "loops": {}, "ghost": []}
                res.setdefault(mm.group(1), []).append(cur)
                tgt = cur["fn"]
            elif line.startswith("@ghost"):
                cur["ghost"].append(line[len("@ghost"):].strip())
            elif line.startswith("@loop"):
                n = int(line.split()[1])
                tgt = cur["loops"].setdefault(n, [])
            elif line.startswith("@class"):
                mm = re.match(r"@class\s+(\w)\s+(.*)$", line)
                if not mm:
                    raise ValueError("bad @class line: " + line)
                tgt.append([mm.group(1), mm.group(2)])
            elif line[0] in " \t":
                tgt[-1][1] += "\n" + line
            else:
                raise ValueError("bad contract line: " + line)
    return res


def contracts_for(parsed, fn, prop):
    """merge all sections of fn that apply to prop ('*' applies to every property)."""
    fnc, loops, ghost = [], {}, []
    for sec in parsed.get(fn, []):
        if prop in sec["props"] or "*" in sec["props"]:
            fnc.extend(sec["fn"])
            for g in sec["ghost"]:
                if g not in ghost:
                    ghost.append(g)
            for n, cl in sec["loops"].items():
                loops.setdefault(n, []).extend(cl)
    return Contract(fnc, loops, ghost)


class Contract:
    def __init__(self, fn, loops, ghost):
        self.fn, self.loops, self.ghost = fn, loops, ghost

    def __iter__(self):  # (fn_clauses, loop_clauses)
        return iter((self.fn, self.loops))
