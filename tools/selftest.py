#!/usr/bin/env python3
"""selftest: apply small source mutants to a scratch copy of /repo/include (outside /repo
and /verif, removed afterwards) and run a property check against it via VERIF_REPO.
usage: selftest.py [mutant-id ...]      (no args: all)
Mutant spec: tools/mutants.json  [{id, file, old, new, nth, prop, expect}]
expect: "violation" (exit 1), "pass" (exit 0), "nonviolation" (exit 0 or 2)."""
import json
import os
import shutil
import subprocess
import sys
import tempfile

VERIF = os.path.abspath(os.path.join(os.path.dirname(os.path.abspath(__file__)), ".."))


def main():
    muts = json.load(open(os.path.join(VERIF, "tools", "mutants.json")))
    sel = set(sys.argv[1:])
    ok = True
    for m in muts:
        if sel and m["id"] not in sel and m["prop"] not in sel:
            continue
        scratch = tempfile.mkdtemp(prefix="vscratch-")
        try:
            shutil.copytree("/repo/include", os.path.join(scratch, "include"))
            p = os.path.join(scratch, m["file"])
            s = open(p).read()
            nth = m.get("nth", 1)
            idx = -1
            for _ in range(nth):
                idx = s.find(m["old"], idx + 1)
                if idx < 0:
                    break
            if idx < 0:
                print("MUTANT %s: pattern not found" % m["id"])
                ok = False
                continue
            s = s[:idx] + m["new"] + s[idx + len(m["old"]):]
            open(p, "w").write(s)
            env = dict(os.environ, VERIF_REPO=scratch, VERIF_SELFTEST="1")
            r = subprocess.run([os.path.join(VERIF, "bin", "check"), m["prop"]], env=env, stdout=subprocess.PIPE,
                               stderr=subprocess.STDOUT)
            out = r.stdout.decode()
            lines = [l for l in out.splitlines() if l.startswith(("VIOLATION", "UNDECIDED", "EXTRACTION", "KNOWN", "  failed"))]
            exp = m["expect"]
            good = (exp == "violation" and r.returncode == 1) or (exp == "pass" and r.returncode == 0) or \
                   (exp == "nonviolation" and r.returncode in (0, 2))
            print("MUTANT %-28s prop=%s expect=%-12s exit=%d %s" % (m["id"], m["prop"], exp, r.returncode, "OK" if good else "**MISMATCH**"))
            for l in lines[:6]:
                print("     " + l[:220])
            ok = ok and good
        finally:
            shutil.rmtree(scratch, ignore_errors=True)
    # restore evidence for the real tree is the caller's business (checks rewrite it)
    sys.exit(0 if ok else 1)


if __name__ == "__main__":
    main()
