"""native replay through native/probe_engine.cpp: engine-level scenario batteries for kernels whose obligations are
about engine behaviour (C04 lookup, C06 arity gates, C07 const gate, C19 use())."""
import json
import os
import shutil
import subprocess
import tempfile

import native

VERIF = os.path.abspath(os.path.join(os.path.dirname(os.path.abspath(__file__)), ".."))
WHAT = {"c04": "shadowing, loop re-evaluation, global-before-function, a 4200-variable scope evaluated twice",
        "c06": "wrong argument counts, std::function arity, wrongly typed argument",
        "c07": "24 ways to modify a const int / const string from script (assignment forms, function-spelled operators, reference binding, T& and T&& parameters, members)",
        "c19": "use() on real files: once-only, search order, missing-then-created, nested include failure"}


def build_probe():
    return native.build("probe_engine", os.path.join(VERIF, "native", "probe_engine.cpp"))


def run(mode, timeout=900):
    d = tempfile.mkdtemp(prefix="vengine-")
    try:
        r = subprocess.run([build_probe(), mode, d], stdout=subprocess.PIPE, stderr=subprocess.PIPE, timeout=timeout)
    finally:
        shutil.rmtree(d, ignore_errors=True)
    cases = []
    for line in r.stdout.decode("utf-8", "replace").splitlines():
        try:
            cases.append(json.loads(line))
        except ValueError:
            pass
    crashed = r.returncode not in (0, 1)
    if crashed:
        cases.append({"scenario": "probe_engine " + mode, "violated": "the probe itself crashed (exit %d)" % r.returncode})
    return r.returncode, cases, r.stderr.decode("utf-8", "replace")[-300:]


_cache = {}


def replay_fn_for(mode_of_prop):
    def fn(kb, t, pr, vals, order, rec):
        mode = mode_of_prop.get(kb.prop)
        if not mode:
            return None
        if mode not in _cache:
            _cache[mode] = run(mode)
        rc, cases, err = _cache[mode]
        return {"reproduced": bool(cases), "probe": "native/probe_engine.cpp %s (real engine: %s)" % (mode, WHAT[mode]),
                "failing_cases": cases[:8], "probe_mode": mode, "probe_summary": err.strip()}
    return fn


def replay_file(rec):
    nr = rec.get("native_replay") or {}
    mode = nr.get("probe_mode")
    if not mode or not nr.get("failing_cases"):
        print("replay: no failing input recorded; failed obligation: %s :: %s" % (rec.get("obligation"), rec.get("description")))
        return 2
    rc, cases, err = run(mode)
    if cases:
        print("REPRODUCED on real code: %s" % cases[:8])
        return 1
    print("not reproduced")
    return 0
