#!/bin/bash
# try_patch.sh <patch.diff> <property-id> [more ids...]: run checks against a scratch copy of /repo/include
# with the patch applied (never touches /repo).  Prints exit codes and VIOLATION lines.
P=$(readlink -f "$1"); shift
S=$(mktemp -d /tmp/vscratch-XXXXXX)
cp -r /repo/include "$S/"
( cd "$S" && patch -p1 -s < "$P" ) || { echo "PATCH-FAILED"; rm -rf "$S"; exit 2; }
for id in "$@"; do
  out=$(VERIF_REPO="$S" VERIF_SELFTEST=1 /verif/bin/check "$id" 2>&1); rc=$?
  echo "== $id exit=$rc"
  echo "$out" | grep -E "^(VIOLATION|  failed|UNDECIDED|EXTRACTION|NOTE)" | cut -c1-260 | head -8
done
rm -rf "$S"
