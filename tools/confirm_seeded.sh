#!/bin/bash
# confirm_seeded.sh <worktree> <property-id>: for each <worktree>/mutants/m*/ : apply patch.diff,
# build, run ctest (must be 295/295), run the demo (must FAIL), revert, run the demo (must PASS).
# Writes <worktree>/mutants/m*/confirm.txt.  Sequential; safe to run in the background.
WT=$1; PID=$2
cd "$WT" || exit 2
[ -d _build ] || cmake -G Ninja -B _build -DCMAKE_BUILD_TYPE=RelWithDebInfo -DBUILD_TESTING=ON -DBUILD_MODULES=ON -DBUILD_SAMPLES=OFF >/dev/null
for m in mutants/m*/; do
  [ -f "$m/patch.diff" ] || continue
  out="$m/confirm.txt"; : > "$out"
  git checkout -- include
  if ! git apply "$m/patch.diff" 2>>"$out"; then echo "APPLY-FAILED" >> "$out"; continue; fi
  if ! cmake --build _build >"$m/build.log" 2>&1; then echo "BUILD-FAILED" >> "$out"; git checkout -- include; continue; fi
  ctest --test-dir _build -j8 --timeout 900 2>&1 | tail -3 | grep "tests passed" >> "$out"
  if [ -x "$m/run.sh" ] || [ -f "$m/run.sh" ]; then
    ( cd "$m" && CHAI_INCLUDE="$WT/include" CHAI="$WT/_build/chai" timeout 600 bash ./run.sh >run_mutant.log 2>&1; echo "demo-with-mutant exit=$?" ) >> "$out"
  fi
  git checkout -- include
  cmake --build _build --target chai >/dev/null 2>&1
  if [ -f "$m/run.sh" ]; then
    ( cd "$m" && CHAI_INCLUDE="$WT/include" CHAI="$WT/_build/chai" timeout 600 bash ./run.sh >run_clean.log 2>&1; echo "demo-clean exit=$?" ) >> "$out"
  fi
  echo "== $PID $m"; cat "$out"
done
git checkout -- include
