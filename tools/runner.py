"""runner: build goto binaries per target, run goto-instrument --dfcc and cbmc in parallel,
classify every reported obligation, write evidence, print VIOLATION / KNOWN-FINDING lines.
Exit codes: 0 held, 1 violation, 2 undecided (tool limit, extraction break, vacuity)."""
import concurrent.futures as cf
import hashlib
import json
import os
import re
import resource
import shutil
import subprocess
import sys
import time

HERE = os.path.dirname(os.path.abspath(__file__))
VERIF = os.path.abspath(os.path.join(HERE, ".."))
sys.path.insert(0, os.path.join(VERIF, "kernels"))
sys.path.insert(0, HERE)
import chai2c  # noqa: E402
from common import clause_map  # noqa: E402

BUILD = os.path.join(VERIF, "build")
SELFTEST = bool(os.environ.get("VERIF_SELFTEST"))
ONLY = os.environ.get("VERIF_ONLY")  # debugging aid: regex over target names (evidence goes to the selftest directory, never to evidence/)
if ONLY:
    SELFTEST = True
EVDIR = os.path.join(BUILD, "selftest-out", str(os.getpid())) if SELFTEST else os.path.join(VERIF, "evidence")
RPDIR = os.path.join(BUILD, "selftest-out", str(os.getpid())) if SELFTEST else os.path.join(VERIF, "replays")
STUBS = os.path.join(VERIF, "stubs")
MEM_KB = 12 * 1024 * 1024
# SAT back end for targets that do not name one: MiniSat (cbmc's default).  Targets on which MiniSat is pathological name
# CaDiCaL themselves (solver="sat:cadical": the K13 grammar units, parse_num, the guard lemmas; DESIGN 13) - and CaDiCaL is in
# turn slower on others (SkipWS), so neither is used blindly; VERIF_SAT=cadical switches the default
DEFAULT_SAT = os.environ.get("VERIF_SAT", "minisat2")
if DEFAULT_SAT in ("minisat2", "default", ""):
    DEFAULT_SAT = None

DEFAULT_CHECKS = ["--no-standard-checks", "--bounds-check", "--pointer-check", "--div-by-zero-check",
                  "--pointer-primitive-check", "--slice-formula"]


class Undecided(Exception):
    pass


def _limit():
    resource.setrlimit(resource.RLIMIT_AS, (MEM_KB * 1024, MEM_KB * 1024))


def sh(cmd, timeout, cwd=None, limit=True):
    t0 = time.time()
    if limit:
        # memory cap through the shell (a preexec_fn forces a full fork of this multi-threaded
        # process for every child, which dominated the run time)
        cmd = ["/bin/sh", "-c", "ulimit -v %d; exec timeout -k 5 %d \"$@\"" % (MEM_KB, int(timeout) + 30), "sh"] + list(cmd)
    try:
        p = subprocess.run(cmd, stdout=subprocess.PIPE, stderr=subprocess.PIPE, timeout=timeout, cwd=cwd)
        return p.returncode, p.stdout.decode("utf-8", "replace"), p.stderr.decode("utf-8", "replace"), time.time() - t0
    except subprocess.TimeoutExpired as e:
        return -9, (e.stdout or b"").decode("utf-8", "replace"), "TIMEOUT after %ss" % timeout, time.time() - t0


def compile_kernel(kb, workdir, extra_defs=()):
    os.makedirs(workdir, exist_ok=True)
    cpath = os.path.join(workdir, kb.kernel + ".c")
    text = kb.text()
    with open(cpath, "w") as f:
        f.write(text)
    defs = ["-D" + d for d in list(kb.defines) + list(extra_defs)]
    # 1. the generated text must be C: native syntax check (contracts vanish natively)
    rc, out, err, _ = sh(["gcc", "-std=gnu11", "-fsyntax-only", "-Wall", "-Wno-unused", "-Werror=implicit-function-declaration",
                          "-Werror=incompatible-pointer-types", "-Werror=int-conversion", "-I", STUBS] + defs + [cpath], 120, limit=False)
    if rc != 0:
        raise chai2c.ExtractionBreak("generated C for %s does not compile natively:\n%s" % (kb.kernel, err[:2000]))
    obj = os.path.join(workdir, kb.kernel + ".o")
    rc, out, err, _ = sh(["goto-cc", "-DVERIF_CBMC", "-I", STUBS] + defs + ["-c", cpath, "-o", obj], 300, limit=False)
    if rc != 0:
        raise chai2c.ExtractionBreak("goto-cc failed for %s:\n%s" % (kb.kernel, (out + err)[:2000]))
    return cpath, obj, text


def run_target(kb, t, obj, workdir, trace=True):
    """returns dict(target, status, results[], wall, cmd, log)"""
    base = os.path.join(workdir, t.name)
    gb1, gb2 = base + ".gb", base + ".dfcc.gb"
    res = {"target": t.name, "fn": t.fn, "status": "ok", "results": [], "wall": 0.0, "solver_s": 0.0,
           "bounded": t.unwind, "bounded_note": t.bounded_note, "messages": []}
    rc, out, err, w = sh(["goto-cc", "--function", t.harness, obj, "-o", gb1], 300, limit=False)
    if rc != 0:
        res["status"] = "tool-error"
        res["messages"].append("goto-cc link: " + (out + err)[:1500])
        return res
    gi = ["goto-instrument", "--dfcc", t.harness]
    if t.enforce:
        # a self-recursive function is checked with its own recursive calls replaced by its contract
        gi += ["--enforce-contract-rec" if getattr(t, "rec", False) else "--enforce-contract", t.fn]
    for r in t.replace:
        gi += ["--replace-call-with-contract", r]
    if t.loops:
        gi += ["--apply-loop-contracts"]
    gi += [gb1, gb2]
    rc, out, err, w = sh(gi, 600)
    res["wall"] += w
    gi_log = out + err
    if rc != 0:
        res["status"] = "tool-error"
        res["messages"].append("goto-instrument: " + gi_log[-2500:])
        return res
    cb = ["cbmc"] + DEFAULT_CHECKS + t.flags + ["--json-ui"]
    if trace:
        cb.append("--trace")
    if t.unwind is not None:
        cb += ["--unwind", str(t.unwind), "--unwinding-assertions"]
    cb += ["--object-bits", str(t.objbits or 12)]
    if not t.solver and DEFAULT_SAT:
        cb += ["--sat-solver", DEFAULT_SAT]
    elif t.solver and t.solver.startswith("sat:"):
        cb += ["--sat-solver", t.solver[4:]]  # e.g. cadical: MiniSat is pathological on some contract instances (DESIGN 13)
    elif t.solver:
        cb.append("--" + t.solver)
    cb.append(gb2)
    res["cmd"] = " ".join(gi) + " && " + " ".join(cb)
    rc, out, err, w = sh(cb, t.timeout)
    res["wall"] += w
    if rc == -9:
        res["status"] = "timeout"
        res["messages"].append("cbmc timeout after %ss" % t.timeout)
        return res
    try:
        doc = json.loads(out)
    except Exception:
        res["status"] = "tool-error"
        res["messages"].append("cbmc output not JSON (rc=%s): %s" % (rc, (out[-800:] + err[-800:])))
        return res
    results = None
    for e in doc:
        if "messageText" in e:
            mt = e["messageText"]
            if e.get("messageType") in ("ERROR", "WARNING") or "ignoring" in mt:
                res["messages"].append(e.get("messageType", "") + ": " + mt)
            mm = re.match(r"Runtime (Solver|decision procedure): ([\d.e+-]+)s", mt)
            if mm:
                res["solver_s"] += float(mm.group(2))
        if "result" in e:
            results = e["result"]
    if results is None:
        res["status"] = "tool-error"
        res["messages"].append("no result block (rc=%s) %s" % (rc, err[-800:]))
        return res
    res["results"] = results
    res["backend"] = ("sat(%s)" % t.solver[4:] if (t.solver or "").startswith("sat:") else t.solver) or ("sat(%s)" % (DEFAULT_SAT or "minisat2"))
    return res


LIB_FN = re.compile(r"^(__CPROVER_contracts_|free$|malloc$|__CPROVER_)")


def classify(kb, t, r, cmap):
    """-> (cls, name, text).  cls in P S F T L V D X(excluded)"""
    prop = r.get("property", "")
    desc = r.get("description", "")
    loc = r.get("sourceLocation", {})
    fn = loc.get("function", "")
    line = int(loc.get("line", 0) or 0)
    fname = loc.get("file", "")
    for rx in t.excluded:
        if re.search(rx, desc):
            return "X", prop, desc
    if desc.startswith("canary:"):
        return "V", prop, desc
    if desc.startswith("throw-kind"):
        return "P", prop, desc
    if fname.startswith("<builtin-library") or LIB_FN.match(fn or ""):
        return "D", prop, desc
    kind = prop.split(".")[1] if "." in prop else ""
    if kind in ("postcondition",):
        c = cmap.get(line)
        return (c[2] if c else "P"), prop, desc + (" :: " + c[4] if c else "")
    if kind == "precondition":
        c = cmap.get(line)
        return "S", prop, desc + (" :: " + c[4] if c else "")
    if kind in ("assigns", "loop_assigns"):
        return "F", prop, desc
    if kind == "loop_decreases":
        return "T", prop, desc
    if kind in ("loop_invariant_base", "loop_invariant_step", "loop_step_unwinding"):
        # normally a helper lemma; a target whose loop invariant IS the property statement says so
        return getattr(t, "invariant_class", "L"), prop, desc
    if kind == "assertion":
        mm = re.match(r"\[(\w)\]", desc)
        if mm:
            return mm.group(1), prop, desc
        return "P", prop, desc
    if kind in ("unwind",):
        return "U", prop, desc
    # instrumentation checks: pointer_dereference, array_bounds, division-by-zero, overflow, ...
    return "S", prop, desc


def extract_trace_inputs(r):
    """flatten the cbmc json trace of a failing property into {lhs: value} (last write
    wins per lhs, in order) plus a list of steps in harness/function scope."""
    vals = {}
    order = []
    for st in r.get("trace", []):
        if st.get("stepType") == "assignment" and not st.get("hidden", False):
            lhs = st.get("lhs")
            v = st.get("value", {})
            data = v.get("data", v.get("name"))
            if lhs is not None:
                vals[lhs] = data if data is not None else v
                order.append((lhs, data, st.get("sourceLocation", {}).get("function")))
    return vals, order


def run_property(prop, tier, builders, seed=0, replay_fn=None, known=None, level="proof", explanation=None,
                 extra_assumptions=(), jobs=16, keep=False, post_static=None):
    """builders: list of callables (prop,tier)->KernelBuild."""
    t0 = time.time()
    work = os.path.join(BUILD, "%s-%s%s" % (prop, tier, "-st%d" % os.getpid() if SELFTEST else ""))
    shutil.rmtree(work, ignore_errors=True)
    os.makedirs(work, exist_ok=True)
    ev = {"property_id": prop, "tier": tier, "seed": seed, "level": level, "coverage": {}, "assumptions": [],
          "wall_s": 0.0, "violations": 0}
    violations = []
    lemma_failures = []
    lemma_notes = []
    known_printed = []
    undecided = []
    kbs = []
    try:
        for b in builders:
            r = b(prop, tier)
            kbs.extend(r if isinstance(r, (list, tuple)) else [r])
    except chai2c.ExtractionBreak as e:
        print("EXTRACTION-BREAK property=%s: %s" % (prop, e))
        write_evidence_undecided(ev, prop, "extraction break: %s" % e, t0)
        return 2
    jobsl = []
    cmaps = {}
    try:
        with cf.ThreadPoolExecutor(max_workers=jobs) as ex:
            comp = list(ex.map(lambda kb: compile_kernel(kb, os.path.join(work, kb.kernel)), kbs))
        for kb, (cpath, obj, text) in zip(kbs, comp):
            cmaps[kb.kernel] = clause_map(text)
            for t in kb.targets:
                if ONLY and not re.search(ONLY, t.name):
                    continue
                jobsl.append((kb, t, obj, os.path.join(work, kb.kernel)))
    except chai2c.ExtractionBreak as e:
        print("EXTRACTION-BREAK property=%s: %s" % (prop, e))
        write_evidence_undecided(ev, prop, "extraction break: %s" % e, t0)
        return 2
    results = []
    with cf.ThreadPoolExecutor(max_workers=jobs) as ex:
        futs = {ex.submit(run_target, kb, t, obj, wd): (kb, t) for kb, t, obj, wd in jobsl}
        for f in cf.as_completed(futs):
            kb, t = futs[f]
            results.append((kb, t, f.result()))
    results.sort(key=lambda x: (x[0].kernel, x[1].name))

    per_class = {}
    obligations = discharged = 0
    bounded_obl = bounded_dis = 0
    excluded = 0
    samples = []
    functions = []
    bounded_fns = []
    solver_s = 0.0
    per_target = []
    for kb, t, r in results:
        solver_s += r.get("solver_s", 0.0)
        tinfo = {"target": t.name, "function": t.fn, "status": r["status"], "wall_s": round(r["wall"], 2),
                 "replaced_callees": t.replace, "loop_contracts": t.loops, "bounded": t.unwind,
                 "backend": r.get("backend"), "obligations": 0, "discharged": 0}
        if t.bounded_note:
            tinfo["bounded_note"] = t.bounded_note
        per_target.append(tinfo)
        if r["status"] != "ok":
            undecided.append("%s: %s %s" % (t.name, r["status"], "; ".join(r["messages"])[:600]))
            continue
        for m in r["messages"]:
            if "ignoring" in m:
                undecided.append("%s: solver ignored a quantifier: %s" % (t.name, m))
        cmap = cmaps[kb.kernel]
        canary_seen = canary_failed = 0
        kinds_seen = set()
        for pr in r["results"]:
            cls, name, text = classify(kb, t, pr, cmap)
            st = pr.get("status")
            kinds_seen.add(name.split(".")[1] if "." in name else "")
            if cls == "V":
                canary_seen += 1
                if st == "FAILURE":
                    canary_failed += 1
                continue
            if cls == "X":
                excluded += 1
                continue
            if cls == "U":
                if st != "SUCCESS":
                    undecided.append("%s: unwinding assertion failed (%s) - bound too small" % (t.name, name))
                continue
            per_class.setdefault(cls, [0, 0])
            per_class[cls][0] += 1
            tinfo["obligations"] += 1
            unb = t.unwind is None or getattr(t, "complete", False)
            if unb:
                obligations += 1
            else:
                bounded_obl += 1
            if st == "SUCCESS":
                per_class[cls][1] += 1
                tinfo["discharged"] += 1
                if unb:
                    discharged += 1
                else:
                    bounded_dis += 1
                if cls in ("P", "F", "T") and len(samples) < 40 and not any(s["obligation"] == name for s in samples):
                    samples.append({"target": t.name, "obligation": name, "class": cls, "text": text[:300], "status": st})
            elif st == "FAILURE":
                if cls == "D":
                    undecided.append("%s: dfcc library check failed: %s %s" % (t.name, name, text))
                    continue
                if cls == "L":
                    lemma_failures.append((kb, t, pr, cls, name, text))
                else:
                    violations.append((kb, t, pr, cls, name, text))
            else:
                undecided.append("%s: %s status %s" % (t.name, name, st))
        if t.canary and (canary_seen == 0 or canary_failed != canary_seen):
            undecided.append("%s: VACUOUS - canary not reached (%d/%d): preconditions contradictory or every path throws"
                             % (t.name, canary_failed, canary_seen))
        if t.loops and getattr(t, "expect_loops", None):
            if "loop_invariant_step" not in kinds_seen:
                undecided.append("%s: loop contract silently dropped (no loop_invariant_step obligations)" % t.name)
        if tinfo["obligations"] == 0:
            undecided.append("%s: zero obligations generated" % t.name)
        if t.unwind is not None and not getattr(t, "complete", False):
            bounded_fns.append("%s bounded(%s)%s" % (t.fn, t.unwind, " " + t.bounded_note if t.bounded_note else ""))
        else:
            functions.append(t.fn)

    # L-class failures (helper lemmas / loop invariants stronger than the property, DESIGN 4):
    # never a violation by themselves.  If the failing function's contract is *used* by another
    # target (replaced call) or the failure is a loop invariant, the dependent proofs are void:
    # look for a real failing input natively; found -> violation, not found -> undecided.
    replaced_anywhere = set()
    for kb, t, r in results:
        replaced_anywhere.update(t.replace)
    for kb, t, pr, cls, name, text in lemma_failures:
        fnname = (pr.get("sourceLocation") or {}).get("function") or t.fn
        kind = name.split(".")[1] if "." in name else ""
        needed = fnname in replaced_anywhere or kind.startswith("loop_")
        if not needed:
            lemma_notes.append("%s: helper lemma no longer holds (%s %s) - not used by any other proof, property obligations unaffected" % (t.name, name, text[:160]))
            print("NOTE property=%s lemma-failed %s" % (prop, lemma_notes[-1]))
            continue
        rr = None
        if replay_fn:
            try:
                rr = replay_fn(kb, t, pr, {}, [], {})
            except Exception as e:
                rr = {"error": repr(e)}
        if rr and rr.get("reproduced"):
            violations.append((kb, t, pr, cls, name, text))
        else:
            undecided.append("%s: lemma %s failed and the proofs depending on it are void; native search found no failing input (%s)"
                             % (t.name, name, text[:200]))

    # static facts
    static = []
    for kb in kbs:
        for name, ok, detail in kb.static_facts:
            static.append({"fact": name, "holds": ok, "detail": detail})
            if ok is None:  # the scan could not decide (unknown code shape): never a violation
                undecided.append("static fact undecided: %s (%s)" % (name, detail[:300]))
            elif not ok:
                violations.append((kb, None, None, "P", "static:" + name, detail))

    # known findings / violations
    rc = 0
    os.makedirs(RPDIR, exist_ok=True)
    kf = known or []
    nviol = 0
    for kb, t, pr, cls, name, text in violations:
        tname = t.name if t else "static"
        matched = None
        for k in kf:
            if k.get("property") == prop and k.get("status", "open") == "open" and re.search(k["match"], tname + " " + name + " " + text):
                matched = k
                break
        if matched:
            line = "KNOWN-FINDING: property=%s %s [%s %s]" % (prop, matched["what"], tname, name)
            if line not in known_printed:
                known_printed.append(line)
                print(line)
            continue
        nviol += 1
        rp = os.path.join(RPDIR, "%s-%s-%s.json" % (prop, tname, re.sub(r"\W+", "_", name)))
        rec = {"property": prop, "target": tname, "function": t.fn if t else None, "obligation": name, "class": cls,
               "description": text, "kernel": kb.kernel, "verifier_status": "FAILURE"}
        suffix = " no-failing-input-found"
        if pr is not None:
            vals, order = extract_trace_inputs(pr)
            rec["trace_values"] = {k: v for k, v in list(vals.items())[-400:]}
            rec["verifier_output"] = {k: pr.get(k) for k in ("property", "description", "status", "sourceLocation")}
            if replay_fn:
                try:
                    rr = replay_fn(kb, t, pr, vals, order, rec)
                    rec["native_replay"] = rr
                    if rr and rr.get("reproduced"):
                        suffix = ""
                except Exception as e:  # replay is best effort; the violation stands
                    rec["native_replay"] = {"error": repr(e)}
        with open(rp, "w") as f:
            json.dump(rec, f, indent=1, default=str)
        print("VIOLATION property=%s replay=%s%s" % (prop, rp, suffix))
        print("  failed obligation: [%s] %s :: %s" % (cls, name, text[:300]))
    if nviol:
        rc = 1
    elif undecided:
        rc = 2
    for u in undecided:
        print("UNDECIDED property=%s %s" % (prop, u))

    # evidence
    tb = ["cbmc 6.11.0 + goto-instrument --dfcc (contract instrumentation), MiniSat2 back end",
          "chai2c extraction rules (DESIGN.md 3) - the verified text is regenerated from /repo on this run",
          "gcc 12 (native syntax check of the generated C)"]
    allassum = list(extra_assumptions)
    for kb in kbs:
        for a in kb.assumptions:
            if a not in allassum:
                allassum.append(a)
    unverified = []
    for kb in kbs:
        unverified.extend(kb.unverified)
    cov = {
        "obligations": obligations,
        "discharged": discharged,
        "checker_cmd": "goto-cc -DVERIF_CBMC --function <harness> <kernel>.o && goto-instrument --dfcc <harness> --enforce-contract <fn> "
                       "[--replace-call-with-contract <callee>]* --apply-loop-contracts && cbmc " + " ".join(DEFAULT_CHECKS) + " --json-ui --trace",
        "trusted_base": tb,
        "explanation": explanation or "",
        "obligations_by_class": {k: {"obligations": v[0], "discharged": v[1]} for k, v in sorted(per_class.items())},
        "class_legend": "P property postcondition/throw-kind, S safety (pointer/bounds/div/callee precondition), F frame (assigns), "
                        "T termination (decreases), L loop invariant base/step, D dfcc library self-checks",
        "bounded_obligations": bounded_obl,
        "bounded_discharged": bounded_dis,
        "excluded_obligations": excluded,
        "functions_under_contract": sorted(set(functions)),
        "bounded_functions": bounded_fns,
        "targets": per_target,
        "solver_seconds": round(solver_s, 2),
        "static_facts": static,
        "slices": [{"function": c, "where": w, "sha256_16": s} for kb in kbs for (c, w, s) in kb.slices],
        "rules_fired": {kb.kernel: kb.rules_fired for kb in kbs},
        "native_data": [d for kb in kbs for d in kb.native_data],
        "unverified": unverified,
        "known_findings_printed": known_printed,
        "undecided": undecided,
        "lemma_notes": lemma_notes,
        "samples": samples[:40],
    }
    ev["coverage"] = cov
    ev["assumptions"] = allassum
    ev["violations"] = nviol
    ev["wall_s"] = round(time.time() - t0, 2)
    os.makedirs(EVDIR, exist_ok=True)
    with open(os.path.join(EVDIR, prop + ".json"), "w") as f:
        json.dump(ev, f, indent=1)
    print("%s tier=%s: %d/%d obligations discharged (unbounded), %d/%d bounded, %d excluded, %d targets, %.1fs -> exit %d"
          % (prop, tier, discharged, obligations, bounded_dis, bounded_obl, excluded, len(results), time.time() - t0, rc))
    if (not keep and rc == 0) or SELFTEST:
        shutil.rmtree(work, ignore_errors=True)
    return rc


def write_evidence_undecided(ev, prop, why, t0):
    ev["level"] = "other"
    ev["coverage"] = {"explanation": "run undecided: " + why, "obligations": 0, "discharged": 0, "samples": []}
    ev["wall_s"] = round(time.time() - t0, 2)
    os.makedirs(EVDIR, exist_ok=True)
    with open(os.path.join(EVDIR, prop + ".json"), "w") as f:
        json.dump(ev, f, indent=1)
