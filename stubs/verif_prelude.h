/* verif_prelude.h - ghost state, throw encoding and spellings shared by all generated
 * kernels.  Compiled three ways:
 *   -DVERIF_CBMC   : goto-cc / cbmc (contracts active, throw = assert-kind + assume(0))
 *   (none)         : gcc native (twin / replay): contracts vanish, throw = longjmp
 */
#ifndef VERIF_PRELUDE_H
#define VERIF_PRELUDE_H
#include <stddef.h>
#include <stdint.h>
#include <stdbool.h>
#include <limits.h>

/* exception kinds (DESIGN 3.1) */
enum verif_exc {
  K_none = 0,
  K_eval_error = 1,
  K_arithmetic_error = 2,
  K_bad_any_cast = 3,
  K_out_of_range = 4,
  K_invalid_argument = 5,
  K_runtime_error = 6,
  K_file_not_found_error = 7,
  K_arity_error = 8,
  K_range_error = 9,
  K_bad_boxed_cast = 10,
  K_length_error = 11,
  K_other = 15
};
#define KBIT(k) (1u << (k))

#ifndef VERIF_ALLOWED
#define VERIF_ALLOWED 0u
#endif

extern int verif_thrown;

/* exceptional postcondition checked at every throw site; kernels may define a sharper one
 * (in terms of ghost specification state) before including this header */
#ifndef VERIF_THROW_OK
#define VERIF_THROW_OK(kind) ((((unsigned)(VERIF_ALLOWED)) >> (kind)) & 1u)
#endif

#ifdef VERIF_CBMC
#define VERIF_THROW(kind, site)                                                      \
  do {                                                                               \
    __CPROVER_assert(VERIF_THROW_OK(kind),                                           \
                     "throw-kind " #kind " allowed here, thrown at " site);         \
    __CPROVER_assume(0);                                                             \
  } while (0)
#define VERIF_CANARY(msg) __CPROVER_assert(0, "canary: " msg)
#else
#include <setjmp.h>
extern jmp_buf verif_jmp;
#define VERIF_THROW(kind, site)                                                      \
  do {                                                                               \
    verif_thrown = (kind);                                                           \
    longjmp(verif_jmp, 1);                                                           \
  } while (0)
#define VERIF_CANARY(msg) ((void)0)
/* contracts vanish natively */
#define __CPROVER_requires(...)
#define __CPROVER_ensures(...)
#define __CPROVER_assigns(...)
#define __CPROVER_loop_invariant(...)
#define __CPROVER_decreases(...)
#define __CPROVER_assert(c, m) ((void)0)
#define __CPROVER_assume(c) ((void)0)
#endif

/* harness inputs of type bool: an uninitialised _Bool local is an arbitrary byte for cbmc */
#ifdef VERIF_CBMC
static inline _Bool verif_nondet_bool(void) { unsigned char verif_c; return verif_c != 0; }
#else
#define verif_nondet_bool() 0
#endif

/* ghost input buffer for cursor kernels: the cursor struct has no begin pointer, the
 * contracts carry it. */
extern const char *g_buf;
extern size_t g_len;

/* A5: "C" locale tolower */
static inline int verif_tolower(int c) { return (c >= 'A' && c <= 'Z') ? c + ('a' - 'A') : c; }

#endif
