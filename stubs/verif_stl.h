/* verif_stl.h - abstract stand-ins for the std:: containers the kernels touch (TRUSTED BASE,
 * DESIGN 3.2).  Each stub keeps only the abstract view the contracts talk about and carries
 * the standard's precondition as an assertion of class [S]: calling pop_back()/back()/front()
 * on an empty vector, indexing past the end, erasing a non-dereferenceable iterator ... are
 * undefined behaviour in C++, so they must be unreachable. */
#ifndef VERIF_STL_H
#define VERIF_STL_H
#include "verif_prelude.h"

#ifdef VERIF_CBMC
#define VERIF_STD_PRE(c, msg) __CPROVER_assert((c), "[S] std precondition: " msg)
#define VERIF_CASSERT(c) __CPROVER_assert((c), "[S] assert(" #c ") in the source holds")
#else
#include <assert.h>
#define VERIF_STD_PRE(c, msg) ((void)0)
#define VERIF_CASSERT(c) ((void)0)
#endif

/* std::vector<T> seen as its length (elements are opaque) */
typedef struct vvec { size_t size; } vvec;
static inline bool vvec_empty(const vvec *v) { return v->size == 0; }
static inline size_t vvec_size(const vvec *v) { return v->size; }
static inline void vvec_emplace_back(vvec *v) { v->size = v->size + 1; }
static inline void vvec_pop_back(vvec *v) { VERIF_STD_PRE(v->size > 0, "vector::pop_back on an empty vector"); v->size = v->size - 1; }
static inline void vvec_clear(vvec *v) { v->size = 0; }
static inline void vvec_insert_front_n(vvec *v, size_t n) { v->size = v->size + n; }

/* std::vector<std::vector<T>>: lengths of the inner vectors in items[0..size); cap is the
 * ghost allocation bound (allocation failure = std::bad_alloc is outside every property) */
typedef struct vvec2 { size_t size; size_t cap; vvec *items; } vvec2;
static inline vvec *vvec2_back(vvec2 *v) { VERIF_STD_PRE(v->size > 0, "vector::back on an empty vector"); return &v->items[v->size - 1]; }
static inline void vvec2_emplace_back(vvec2 *v, size_t inner) { VERIF_STD_PRE(v->size < v->cap, "ghost capacity (contracts require room for one more element: allocation succeeds)"); v->items[v->size].size = inner; v->size = v->size + 1; }
static inline void vvec2_pop_back(vvec2 *v) { VERIF_STD_PRE(v->size > 0, "vector::pop_back on an empty vector"); v->size = v->size - 1; }

/* std::ifstream opened in binary mode on a file whose bytes are data[0..len) - state machine per
 * [istream.unformatted] / [ios.base]: read() past the end delivers what is left and sets
 * eofbit|failbit; seekg() first clears eofbit and then does nothing if fail(); a read on a stream
 * that is not good() sets failbit and delivers nothing; tellg() is -1 while fail().  The three
 * operations are contract-only (trusted model of libstdc++; probed natively in DESIGN 3.2). */
typedef struct vifs { const char *data; size_t len; size_t pos; bool is_open; bool failbit; bool eofbit; size_t gcount; } vifs;
static inline bool vifs_is_open(const vifs *f) { return f->is_open; }
static inline void vifs_clear(vifs *f) { f->failbit = false; f->eofbit = false; }
/* std::string result: bytes written into a caller-provided ghost buffer */
typedef struct vstr { char *data; size_t cap; size_t len; } vstr;

#define VERIF_SWAP(a, b) do { __typeof__(a) verif_t = (a); (a) = (b); (b) = verif_t; } while (0)
#endif
