/* verif_stl.h - abstract stand-ins for the std:: containers the kernels touch (TRUSTED BASE,
 * DESIGN 3.2).  Each stub keeps only the abstract view the contracts talk about and carries
 * the standard's precondition as an assertion of class [S]: calling pop_back()/back()/front()
 * on an empty vector, indexing past the end, erasing a non-dereferenceable iterator ... are
 * undefined behaviour in C++, so they must be unreachable. */
#ifndef VERIF_STL_H
#define VERIF_STL_H
#include "verif_prelude.h"

#ifdef VERIF_CBMC
#define VERIF_STD_PRE(c, msg) __CPROVER_assert((c), "[S] std precondition: " msg)
#define VERIF_CASSERT(c) __CPROVER_assert((c), "[S] assert(" #c ") in the source holds")
#else
#include <assert.h>
#define VERIF_STD_PRE(c, msg) ((void)0)
#define VERIF_CASSERT(c) ((void)0)
#endif

/* std::vector<T> seen as its length (elements are opaque) */
typedef struct vvec { size_t size; } vvec;
static inline bool vvec_empty(const vvec *v) { return v->size == 0; }
static inline size_t vvec_size(const vvec *v) { return v->size; }
static inline void vvec_emplace_back(vvec *v) { v->size = v->size + 1; }
static inline void vvec_pop_back(vvec *v) { VERIF_STD_PRE(v->size > 0, "vector::pop_back on an empty vector"); v->size = v->size - 1; }
static inline void vvec_clear(vvec *v) { v->size = 0; }
static inline void vvec_insert_front_n(vvec *v, size_t n) { v->size = v->size + n; }

/* std::vector<std::vector<T>>: lengths of the inner vectors in items[0..size); cap is the
 * ghost allocation bound (allocation failure = std::bad_alloc is outside every property) */
typedef struct vvec2 { size_t size; size_t cap; vvec *items; } vvec2;
static inline vvec *vvec2_back(vvec2 *v) { VERIF_STD_PRE(v->size > 0, "vector::back on an empty vector"); return &v->items[v->size - 1]; }
static inline vvec *vvec2_front(vvec2 *v) { VERIF_STD_PRE(v->size > 0, "vector::front on an empty vector"); return &v->items[0]; }
static inline void vvec2_emplace_back(vvec2 *v, size_t inner) { VERIF_STD_PRE(v->size < v->cap, "ghost capacity (contracts require room for one more element: allocation succeeds)"); v->items[v->size].size = inner; v->size = v->size + 1; }
static inline void vvec2_pop_back(vvec2 *v) { VERIF_STD_PRE(v->size > 0, "vector::pop_back on an empty vector"); v->size = v->size - 1; }

/* std::ifstream opened in binary mode on a file whose bytes are data[0..len) - state machine per
 * [istream.unformatted] / [ios.base]: read() past the end delivers what is left and sets
 * eofbit|failbit; seekg() first clears eofbit and then does nothing if fail(); a read on a stream
 * that is not good() sets failbit and delivers nothing; tellg() is -1 while fail().  The three
 * operations are contract-only (trusted model of libstdc++; probed natively in DESIGN 3.2). */
typedef struct vifs { const char *data; size_t len; size_t pos; bool is_open; bool failbit; bool eofbit; size_t gcount; } vifs;
static inline bool vifs_is_open(const vifs *f) { return f->is_open; }
static inline void vifs_clear(vifs *f) { f->failbit = false; f->eofbit = false; }
/* std::string result: bytes written into a caller-provided ghost buffer */
typedef struct vstr { char *data; size_t cap; size_t len; } vstr;

static inline void vstr_push_back(vstr *m, char c) { VERIF_STD_PRE(m->len < m->cap, "ghost capacity of the output string"); m->data[m->len] = c; m->len = m->len + 1; }
/* append of at most 4 bytes (the UTF-8 encoder's buffer), unrolled: loop-free */
static inline void vstr_append(vstr *m, const char *b, size_t n) {
  VERIF_STD_PRE(n <= 4, "model bound: append of at most 4 bytes");
  if (n > 0) vstr_push_back(m, b[0]);
  if (n > 1) vstr_push_back(m, b[1]);
  if (n > 2) vstr_push_back(m, b[2]);
  if (n > 3) vstr_push_back(m, b[3]);
}
/* an output std::string seen as (length, its last 8 bytes): enough to state "exactly these bytes
 * were appended" for appends of up to 8 bytes, without any symbolic-index memory (the buffer
 * model above made cbmc's formulas explode: 3.3M variables for the 4-branch UTF-8 encoder) */
typedef struct vtail { size_t len; unsigned char t[8]; } vtail;
static inline void vtail_push_back(vtail *m, char c) {
  m->t[0] = m->t[1]; m->t[1] = m->t[2]; m->t[2] = m->t[3]; m->t[3] = m->t[4]; m->t[4] = m->t[5]; m->t[5] = m->t[6]; m->t[6] = m->t[7];
  m->t[7] = (unsigned char)c; m->len = m->len + 1;
}
static inline void vtail_append(vtail *m, const char *b, size_t n) {
  VERIF_STD_PRE(n <= 4, "model bound: append of at most 4 bytes");
  if (n > 0) vtail_push_back(m, b[0]);
  if (n > 1) vtail_push_back(m, b[1]);
  if (n > 2) vtail_push_back(m, b[2]);
  if (n > 3) vtail_push_back(m, b[3]);
}
/* a short std::string (escape digits being collected): at most VSMALL_CAP characters; the
 * capacity is a ghost bound that every push_back must respect (checked, class [S]) */
#define VSMALL_CAP 8
typedef struct vsmall { char d[VSMALL_CAP]; size_t n; } vsmall;
static inline bool vsmall_empty(const vsmall *s) { return s->n == 0; }
static inline size_t vsmall_size(const vsmall *s) { return s->n; }
static inline void vsmall_clear(vsmall *s) { s->n = 0; }
static inline char vsmall_front(const vsmall *s) { VERIF_STD_PRE(s->n > 0, "string::front on an empty string"); return s->d[0]; }
static inline char vsmall_back(const vsmall *s) { VERIF_STD_PRE(s->n > 0, "string::back on an empty string"); return s->d[s->n - 1]; }
static inline void vsmall_push_back(vsmall *s, char c) { VERIF_STD_PRE(s->n < VSMALL_CAP, "ghost capacity of the digit string"); s->d[s->n] = c; s->n = s->n + 1; }
static inline int verif_digit(char c) { return (c >= '0' && c <= '9') ? c - '0' : (c >= 'a' && c <= 'f') ? c - 'a' + 10 : (c >= 'A' && c <= 'F') ? c - 'A' + 10 : 99; }
/* std::stoll / std::stoul / std::stoi on a string without sign or whitespace, [string.conversions]:
 * converts the longest prefix of base-`base` digits; no digits -> invalid_argument; value not
 * representable in the result type -> out_of_range.  Trusted model, written loop-free (the digit
 * string holds at most VSMALL_CAP = 8 characters). */
#define VERIF_STO_STEP(i) \
  if (!verif_stop && (i) < s->n) { int dg = verif_digit(s->d[i]); \
    if (dg >= base) verif_stop = 1; \
    else { if (v > ((maxv - (unsigned long long)dg) >> (base == 16 ? 4 : 3))) { /* == (maxv - dg) / base for base 8 or 16 */ VERIF_THROW(K_out_of_range, "std::sto*: value out of range of the result type"); } \
           v = v * (unsigned long long)base + (unsigned long long)dg; } }
static inline unsigned long long verif_stoull_(const vsmall *s, int base, unsigned long long maxv) {
  VERIF_STD_PRE(base == 8 || base == 16, "model covers bases 8 and 16 only");
  if (s->n == 0 || verif_digit(s->d[0]) >= base) { VERIF_THROW(K_invalid_argument, "std::sto*: no conversion could be performed"); }
  unsigned long long v = 0;
  int verif_stop = 0;
  VERIF_STO_STEP(0) VERIF_STO_STEP(1) VERIF_STO_STEP(2) VERIF_STO_STEP(3) VERIF_STO_STEP(4) VERIF_STO_STEP(5) VERIF_STO_STEP(6) VERIF_STO_STEP(7)
  return v;
}
static inline long long verif_stoll(const vsmall *s, int base) { return (long long)verif_stoull_(s, base, (unsigned long long)LLONG_MAX); }
static inline unsigned long verif_stoul(const vsmall *s, int base) { return (unsigned long)verif_stoull_(s, base, ULONG_MAX); }
static inline int verif_stoi(const vsmall *s, int base) { return (int)verif_stoull_(s, base, (unsigned long long)INT_MAX); }

/* ---- K8: a std sequence container (vector / list / deque / basic_string) seen as its length plus
 * a ghost record of the last structural operation (kind, position, count), so that contracts can
 * say "exactly the std operation happened".  Element references are element indices (vref);
 * element values are opaque ids.  Iterators are (container, index).  Every function carries the
 * standard's precondition as a class [S] assertion: violating it is undefined behaviour in C++. */
typedef int velem;
typedef size_t vref;
enum vop { VOP_none = 0, VOP_insert, VOP_erase, VOP_push_back, VOP_pop_back, VOP_push_front, VOP_pop_front, VOP_clear, VOP_resize, VOP_reserve };
typedef struct vseq { size_t size; size_t cap; int op; size_t op_pos; } vseq;
typedef struct viter { const vseq *c; size_t idx; } viter;
static inline bool vseq_empty(const vseq *c) { return c->size == 0; }
static inline size_t vseq_size(const vseq *c) { return c->size; }
static inline size_t vseq_capacity(const vseq *c) { return c->cap; }
static inline viter vseq_begin(const vseq *c) { viter i; i.c = c; i.idx = 0; return i; }
static inline viter vseq_end(const vseq *c) { viter i; i.c = c; i.idx = c->size; return i; }
static inline long viter_distance(const viter *a, const viter *b) { VERIF_STD_PRE(a->c == b->c, "std::distance: iterators into the same container"); return (long)b->idx - (long)a->idx; }
static inline void viter_advance(viter *i, long n) { VERIF_STD_PRE(n >= -(long)i->idx && n <= (long)(i->c->size - i->idx), "std::advance stays inside [begin, end]"); i->idx = (size_t)((long)i->idx + n); }
static inline void viter_inc(viter *i) { VERIF_STD_PRE(i->idx < i->c->size, "++ on an iterator that is not dereferenceable (end)"); i->idx = i->idx + 1; }
static inline void viter_dec(viter *i) { VERIF_STD_PRE(i->idx > 0, "-- on the begin iterator"); i->idx = i->idx - 1; }
static inline vref viter_deref(const viter *i) { VERIF_STD_PRE(i->idx < i->c->size, "dereference of an iterator that is not dereferenceable"); return i->idx; }
static inline bool viter_eq(const viter *a, const viter *b) { return a->idx == b->idx; }
static inline viter viter_prev(viter i) { VERIF_STD_PRE(i.idx > 0, "std::prev on the begin iterator"); i.idx = i.idx - 1; return i; }
static inline viter viter_next(viter i) { VERIF_STD_PRE(i.idx < i.c->size, "std::next on the end iterator"); i.idx = i.idx + 1; return i; }
static inline void vseq_insert(vseq *c, viter pos, velem v) { VERIF_STD_PRE(pos.c == c && pos.idx <= c->size, "insert: iterator in [begin, end] of this container"); VERIF_STD_PRE(c->size < c->cap, "ghost capacity (allocation succeeds)"); c->size = c->size + 1; c->op = VOP_insert; c->op_pos = pos.idx; }
static inline void vseq_erase(vseq *c, viter pos) { VERIF_STD_PRE(pos.c == c && pos.idx < c->size, "erase: dereferenceable iterator of this container"); c->size = c->size - 1; c->op = VOP_erase; c->op_pos = pos.idx; }
static inline vref vseq_back(const vseq *c) { VERIF_STD_PRE(c->size > 0, "back() on an empty container"); return c->size - 1; }
static inline vref vseq_front(const vseq *c) { VERIF_STD_PRE(c->size > 0, "front() on an empty container"); return 0; }
static inline void vseq_pop_back(vseq *c) { VERIF_STD_PRE(c->size > 0, "pop_back() on an empty container"); c->size = c->size - 1; c->op = VOP_pop_back; c->op_pos = c->size; }
static inline void vseq_pop_front(vseq *c) { VERIF_STD_PRE(c->size > 0, "pop_front() on an empty container"); c->size = c->size - 1; c->op = VOP_pop_front; c->op_pos = 0; }
static inline void vseq_push_back(vseq *c, velem v) { VERIF_STD_PRE(c->size < c->cap, "ghost capacity (allocation succeeds)"); c->op = VOP_push_back; c->op_pos = c->size; c->size = c->size + 1; }
static inline void vseq_push_front(vseq *c, velem v) { VERIF_STD_PRE(c->size < c->cap, "ghost capacity (allocation succeeds)"); c->op = VOP_push_front; c->op_pos = 0; c->size = c->size + 1; }
/* at(): the checked access - throws std::out_of_range, never undefined */
static inline vref vseq_at(const vseq *c, size_t i) { if (i >= c->size) { VERIF_THROW(K_out_of_range, "std::vector/string::at: index >= size()"); } return i; }
/* operator[]: unchecked - index must be in range */
static inline vref vseq_index(const vseq *c, size_t i) { VERIF_STD_PRE(i < c->size, "operator[]: index < size()"); return i; }
static inline void vseq_clear(vseq *c) { c->size = 0; c->op = VOP_clear; c->op_pos = 0; }
static inline void vseq_resize(vseq *c, size_t n) { if (n > c->cap) { VERIF_THROW(K_length_error, "resize beyond max_size / allocation failure"); } c->op = VOP_resize; c->op_pos = n; c->size = n; }
static inline void vseq_resize_val(vseq *c, size_t n, velem v) { vseq_resize(c, n); }
static inline void vseq_reserve(vseq *c, size_t n) { if (n > c->cap) { VERIF_THROW(K_length_error, "reserve beyond max_size / allocation failure"); } }
/* basic_string::substr(pos, len): throws out_of_range if pos > size(); result length min(len, size - pos) */
static inline size_t vseq_substr(const vseq *s, size_t pos, size_t len) { if (pos > s->size) { VERIF_THROW(K_out_of_range, "basic_string::substr: pos > size()"); } return len < s->size - pos ? len : s->size - pos; }
/* String(ptr + pos, n): reads the n bytes at [pos, pos + n) - they must lie inside the source string */
static inline size_t vseq_from_range(const vseq *s, size_t pos, size_t n) { VERIF_STD_PRE(pos <= s->size && n <= s->size - pos, "basic_string(const char *p, size_t n): [p, p + n) is a valid range of the source"); return n; }
#define VERIF_MIN(a, b) ((a) < (b) ? (a) : (b))
/* the find family is total in C++ (any pos is allowed); the result is npos or an index */
#ifdef VERIF_CBMC
static inline size_t vseq_find_any(const vseq *s) { size_t verif_r; __CPROVER_assume(verif_r == (size_t)-1 || verif_r < s->size); return verif_r; }
#else
static inline size_t vseq_find_any(const vseq *s) { return (size_t)-1; }
#endif
#ifdef VERIF_CBMC
static inline size_t vseq_find_fwd(const vseq *s, const vseq *f, size_t pos) {
  size_t verif_r;
  /* [string.find]: the lowest xpos >= pos with xpos + f.size() <= size(); for an empty needle that is pos itself when pos <= size() */
  __CPROVER_assume(f->size == 0 ? verif_r == (pos <= s->size ? pos : (size_t)-1) : (verif_r == (size_t)-1 || (verif_r >= pos && verif_r < s->size && f->size <= s->size - verif_r)));
  return verif_r;
}
#else
static inline size_t vseq_find_fwd(const vseq *s, const vseq *f, size_t pos) { return (size_t)-1; }
#endif
#define vseq_find(s, f, pos) vseq_find_fwd(s, f, pos)
#define vseq_rfind(s, f, pos) vseq_find_any(s)
#define vseq_find_first_of(s, f, pos) vseq_find_any(s)
#define vseq_find_last_of(s, f, pos) vseq_find_any(s)
#define vseq_find_first_not_of(s, f, pos) vseq_find_any(s)
#define vseq_find_last_not_of(s, f, pos) vseq_find_any(s)
static inline const vseq *vseq_c_str(const vseq *s) { return s; }
static inline const vseq *vseq_data(const vseq *s) { return s; }


/* ---- K9 (JSON): the input std::string seen as (bytes, length); at() is the checked access of
 * [string.access]: throws std::out_of_range when pos >= size(); operator[] is unchecked.
 * substr(pos, n) throws std::out_of_range when pos > size() and yields min(n, size() - pos) bytes. */
typedef struct vjs { const char *data; size_t len; } vjs;
static inline size_t vjs_size(const vjs *s) { return s->len; }
static inline char vjs_at(const vjs *s, size_t i) { if (i >= s->len) { VERIF_THROW(K_out_of_range, "std::string::at: pos >= size()"); } return s->data[i]; }
static inline char vjs_index(const vjs *s, size_t i) { VERIF_STD_PRE(i <= s->len, "std::string::operator[]: pos <= size()"); return i == s->len ? '\0' : s->data[i]; }
/* str.substr(pos, n) == "literal" for literals of at most 5 characters (loop-free) */
static inline bool vjs_substr_eq_(const vjs *s, size_t pos, size_t n, const char *lit, size_t litlen) {
  VERIF_STD_PRE(litlen <= 5 && n <= 5, "model bound: literals of at most 5 characters");
  if (pos > s->len) { VERIF_THROW(K_out_of_range, "std::string::substr: pos > size()"); }
  size_t m = s->len - pos < n ? s->len - pos : n;
  if (m != litlen) return false;
  if (m > 0 && s->data[pos] != lit[0]) return false;
  if (m > 1 && s->data[pos + 1] != lit[1]) return false;
  if (m > 2 && s->data[pos + 2] != lit[2]) return false;
  if (m > 3 && s->data[pos + 3] != lit[3]) return false;
  if (m > 4 && s->data[pos + 4] != lit[4]) return false;
  return true;
}
#define vjs_substr_eq(s, pos, n, lit) vjs_substr_eq_(s, pos, n, lit, sizeof(lit) - 1)
/* A5: ::isspace in the "C" locale (argument is a plain char: for negative values the C standard
 * leaves ::isspace undefined; glibc's table covers -128..255 and answers false) */
static inline int verif_isspace(int c) { return c == ' ' || (c >= '\t' && c <= '\r'); }
/* a JSON value: opaque (only its class is kept) */
typedef int vjson;
enum { VJSON_Null = 0, VJSON_Object, VJSON_Array, VJSON_String, VJSON_Floating, VJSON_Integral, VJSON_Boolean, VJSON_Number };

#define VERIF_SWAP(a, b) do { __typeof__(a) verif_t = (a); (a) = (b); (b) = verif_t; } while (0)
#endif
