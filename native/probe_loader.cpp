// probe_loader: native replay for kernel K10 (C19): the REAL ChaiScript_Basic::load_file on
// files of every length 0..6 over a small byte alphabet (with and without a BOM prefix),
// compared with "the bytes of the file minus one leading EF BB BF".  Also checks the clauses
// of the assumed std::ifstream model (contracts/K10_loader.contracts) against libstdc++.
// usage: probe_loader search <tmpdir> | probe_loader model <tmpdir> | probe_loader case <tmpdir> <hexbytes>
#include <cstdio>
#include <cstdlib>
#include <cstring>
#include <fstream>
#include <string>
#include <vector>
#include <chaiscript/chaiscript_basic.hpp>
#include <chaiscript/language/chaiscript_engine.hpp>

static std::string hex(const std::string &s) { static const char *d = "0123456789abcdef"; std::string r; for (unsigned char c : s) { r += d[c >> 4]; r += d[c & 15]; } return r; }
static std::string unhex(const std::string &h) { std::string r; for (size_t i = 0; i + 1 < h.size(); i += 2) r += char(std::stoi(h.substr(i, 2), nullptr, 16)); return r; }
static void put(const std::string &path, const std::string &bytes) { std::ofstream o(path, std::ios::binary | std::ios::trunc); o.write(bytes.data(), std::streamsize(bytes.size())); }

static int one(const std::string &dir, const std::string &bytes, bool print) {
  const std::string path = dir + "/f.chai";
  put(path, bytes);
  std::string want = bytes;
  if (want.size() >= 3 && want.compare(0, 3, "\xef\xbb\xbf") == 0) want.erase(0, 3);
  std::string got;
  try { got = chaiscript::ChaiScript_Basic::load_file(path); } catch (const std::exception &e) { got = std::string("<exception ") + e.what() + ">"; }
  if (got != want) {
    if (print) std::printf("{\"file_hex\":\"%s\",\"violated\":\"load_file(file) != bytes minus one leading BOM\",\"got_hex\":\"%s\",\"want_hex\":\"%s\"}\n", hex(bytes).c_str(), hex(got).c_str(), hex(want).c_str());
    return 1;
  }
  return 0;
}

int main(int argc, char **argv) {
  if (argc < 3) return 3;
  std::string mode = argv[1], dir = argv[2];
  if (mode == "case") return one(dir, unhex(argc > 3 ? argv[3] : ""), true);
  if (mode == "model") {
    int bad = 0;
    for (size_t len = 0; len <= 4; ++len) {
      put(dir + "/m", std::string(len, 'x'));
      std::ifstream f(dir + "/m", std::ios::in | std::ios::ate | std::ios::binary);
      bad |= !(f.is_open() && size_t(f.tellg()) == len);
      f.seekg(0, std::ios::beg);
      char buf[3] = {1, 1, 1};
      f.read(buf, 3);
      const size_t g = size_t(f.gcount());
      bad |= !(g == (len < 3 ? len : 3));
      bad |= !(f.fail() == (len < 3) && f.eof() == (len < 3));
      for (size_t i = g; i < 3; ++i) bad |= buf[i] != 1; // bytes beyond gcount untouched
      f.seekg(0);
      if (len < 3) { bad |= !(f.fail() && !f.eof()); bad |= !(f.tellg() == std::streampos(-1)); char c; f.read(&c, 1); bad |= !(f.gcount() == 0 && f.fail()); }
      else { bad |= !(f.good() && f.tellg() == std::streampos(0)); }
    }
    std::ifstream nf(dir + "/does-not-exist", std::ios::in | std::ios::ate | std::ios::binary);
    bad |= nf.is_open();
    std::fprintf(stderr, "probe_loader model: %s\n", bad ? "MISMATCH with libstdc++" : "ok");
    return bad ? 1 : 0;
  }
  const unsigned char alpha[] = {0xef, 0xbb, 0xbf, 'a', '\n', 0, '1'};
  long n = 0, found = 0;
  for (int len = 0; len <= 6 && found < 4; ++len) {
    long total = 1;
    for (int i = 0; i < len; ++i) total *= 7;
    for (long idx = 0; idx < total && found < 4; ++idx) {
      std::string b(size_t(len), ' ');
      long k = idx;
      for (int i = 0; i < len; ++i) { b[size_t(i)] = char(alpha[k % 7]); k /= 7; }
      if (len >= 5 && !(b[0] == char(0xef))) continue; // long files: only those starting like a BOM matter
      ++n;
      found += one(dir, b, true);
    }
  }
  try { chaiscript::ChaiScript_Basic::load_file(dir + "/does-not-exist"); std::printf("{\"violated\":\"missing file did not raise\"}\n"); ++found; }
  catch (const chaiscript::exception::file_not_found_error &) {}
  catch (...) { std::printf("{\"violated\":\"missing file raised something else than file_not_found_error\"}\n"); ++found; }
  std::fprintf(stderr, "probe_loader: %ld files, %ld failing\n", n, found);
  return found ? 1 : 0;
}
