// probe_number: native replay harness for kernel K4 (C05/C07).  Calls the REAL
// chaiscript::Boxed_Number::do_oper on boxed operands of the requested C++ types and compares
// with the same expression evaluated natively on the same C++ types (the property's own
// oracle).  Each case runs in a forked child: SIGFPE / abort are observed, not fatal.
//
// usage: probe_number search <L> <R>          all opcodes x boundary values for the pair
//        probe_number case <L> <R> <opcode> <lhs> <rhs> <lhsmode>   one case
//        probe_number types                    exhaustive get_common_type check (23 builtin types)
// L,R in i8 u8 i16 u16 i32 u32 i64 u64 f32 f64 f80; lhsmode: 0 mutable var, 1 const, 2 return value
// output: JSON object per failing case; exit 1 if any.
#include <cmath>
#include <csignal>
#include <cstdint>
#include <cstdio>
#include <cstdlib>
#include <cstring>
#include <limits>
#include <string>
#include <type_traits>
#include <vector>
#include <sys/wait.h>
#include <unistd.h>

#include <chaiscript/chaiscript_basic.hpp>
#include <chaiscript/dispatchkit/boxed_number.hpp>

using namespace chaiscript;
using Op = Operators::Opers;

struct Res {
  int kind = 0; // 0 value, 1 arithmetic_error, 2 bad_any_cast, 3 other exception, 4 lhsref
  std::string type;
  long double val = 0;
  bool is_nan = false;
};

template<typename T> static const char *tname() {
  if (std::is_same_v<T, bool>) return "bool";
  if (std::is_floating_point_v<T>) return sizeof(T) == 4 ? "f32" : sizeof(T) == 8 ? "f64" : "f80";
  static char buf[8];
  std::snprintf(buf, sizeof buf, "%c%zu", std::is_signed_v<T> ? 'i' : 'u', sizeof(T) * 8);
  return buf;
}

static std::string bv_type(const Boxed_Value &bv) {
  const auto &ti = bv.get_type_info();
  if (ti.bare_equal_type_info(typeid(bool))) return "bool";
#define TY(T) if (ti.bare_equal_type_info(typeid(T))) return tname<T>();
  TY(signed char) TY(unsigned char) TY(char) TY(short) TY(unsigned short) TY(int) TY(unsigned int) TY(long) TY(unsigned long)
  TY(long long) TY(unsigned long long) TY(float) TY(double) TY(long double)
#undef TY
  return "?";
}
static long double bv_val(const Boxed_Value &bv) {
  if (bv.get_type_info().bare_equal_type_info(typeid(bool))) return boxed_cast<bool>(bv) ? 1 : 0;
  return Boxed_Number(bv).get_as<long double>();
}

template<typename T> static Res val(T v) {
  Res r;
  r.type = tname<T>();
  r.val = static_cast<long double>(v);
  if constexpr (std::is_floating_point_v<T>) r.is_nan = std::isnan(v);
  return r;
}

// the same expression on the same C++ types; sets trap=true where C++ evaluation would trap
// (integer /,% by zero or MIN/-1) and undef=true where the result is undefined without a trap
template<typename L, typename R> static Res expect(Op op, L l, R r, int lhsmode, L &lobj) {
  constexpr bool bothint = !std::is_floating_point_v<L> && !std::is_floating_point_v<R>;
  Res bad;
  bad.kind = 2;
  Res trap;
  trap.kind = 1;
  Res lref;
  lref.kind = 4;
  auto divtrap = [&]() {
    if constexpr (bothint) {
      if (r == 0) return true;
      using C = decltype(l / r);
      if constexpr (std::is_signed_v<C>) return static_cast<C>(r) == C(-1) && static_cast<C>(l) == std::numeric_limits<C>::min();
    }
    return false;
  };
  switch (op) {
    case Op::equals: return val(l == r);
    case Op::less_than: return val(l < r);
    case Op::greater_than: return val(l > r);
    case Op::less_than_equal: return val(l <= r);
    case Op::greater_than_equal: return val(l >= r);
    case Op::not_equal: return val(l != r);
    case Op::sum: return val(l + r);
    case Op::difference: return val(l - r);
    case Op::product: return val(l * r);
    case Op::quotient: if (divtrap()) return trap; return val(l / r);
    default: break;
  }
  if constexpr (bothint) {
    switch (op) {
      case Op::remainder: if (divtrap()) return trap; return val(l % r);
      case Op::shift_left: return val(l << r);
      case Op::shift_right: return val(l >> r);
      case Op::bitwise_and: return val(l & r);
      case Op::bitwise_or: return val(l | r);
      case Op::bitwise_xor: return val(l ^ r);
      default: break;
    }
  }
  if (lhsmode == 0) {
    switch (op) {
      case Op::assign: lobj = static_cast<L>(r); return lref;
      case Op::assign_sum: lobj += r; return lref;
      case Op::assign_difference: lobj -= r; return lref;
      case Op::assign_product: lobj *= r; return lref;
      case Op::assign_quotient: if (divtrap()) return trap; lobj /= r; return lref;
      default: break;
    }
    if constexpr (bothint) {
      switch (op) {
        case Op::assign_remainder: if (divtrap()) return trap; lobj %= r; return lref;
        case Op::assign_bitwise_and: lobj &= r; return lref;
        case Op::assign_bitwise_or: lobj |= r; return lref;
        case Op::assign_bitwise_xor: lobj ^= r; return lref;
        case Op::assign_shift_left: lobj <<= r; return lref;
        case Op::assign_shift_right: lobj >>= r; return lref;
        default: break;
      }
    }
  }
  return bad;
}

// inputs whose C++ result is undefined and does not trap are excluded by the property
template<typename L, typename R> static bool excluded(Op op, L l, R r) {
  constexpr bool bothint = !std::is_floating_point_v<L> && !std::is_floating_point_v<R>;
  if constexpr (bothint) {
    using C = decltype(l + r);
    const bool shift = op == Op::shift_left || op == Op::shift_right || op == Op::assign_shift_left || op == Op::assign_shift_right;
    if (shift) {
      if (static_cast<long double>(r) < 0 || static_cast<long double>(r) >= sizeof(C) * 8) return true;
      if ((op == Op::shift_left || op == Op::assign_shift_left) && std::is_signed_v<C>) {
        if (l < 0) return true;
        long double v = static_cast<long double>(l) * std::pow(2.0L, static_cast<long double>(r));
        if (v > static_cast<long double>(std::numeric_limits<C>::max())) return true;
      }
    }
    if constexpr (std::is_signed_v<C>) {
      long double a = static_cast<long double>(static_cast<C>(l)), b = static_cast<long double>(static_cast<C>(r)), v = 0;
      bool ar = true;
      switch (op) {
        case Op::sum: case Op::assign_sum: v = a + b; break;
        case Op::difference: case Op::assign_difference: v = a - b; break;
        case Op::product: case Op::assign_product: v = a * b; break;
        default: ar = false;
      }
      if (ar && (v > static_cast<long double>(std::numeric_limits<C>::max()) || v < static_cast<long double>(std::numeric_limits<C>::min()))) return true;
    }
  } else {
    // float -> integer conversions out of range (assignment to an integer lhs)
    if constexpr (!std::is_floating_point_v<L>) {
      const bool asg = op == Op::assign || op == Op::assign_sum || op == Op::assign_difference || op == Op::assign_product || op == Op::assign_quotient;
      if (asg) return true; // result goes float -> int: range depends on the value; excluded wholesale (stated)
    }
  }
  return false;
}

template<typename L, typename R> static int one_case(Op op, L l, R r, int lhsmode, bool print) {
  if (excluded(op, l, r)) return 0;
  L lobj_expected = l;
  Res e = expect<L, R>(op, l, r, lhsmode, lobj_expected);
  L lobj = l;
  Boxed_Value lbv = lhsmode == 0 ? var(&lobj) : lhsmode == 1 ? const_var(l) : Boxed_Value(l, true);
  Boxed_Value rbv = const_var(r);
  Res g;
  try {
    Boxed_Value out = Boxed_Number::do_oper(op, lbv, rbv);
    const bool isasg = static_cast<int>(op) >= static_cast<int>(Op::assign) && static_cast<int>(op) <= static_cast<int>(Op::assign_bitwise_xor) && op != Op::pre_increment && op != Op::pre_decrement;
    if (isasg) {
      g.kind = 4;
    } else {
      g.kind = 0;
      g.type = bv_type(out);
      g.val = bv_val(out);
      g.is_nan = std::isnan(g.val);
    }
  } catch (const chaiscript::exception::arithmetic_error &) {
    g.kind = 1;
  } catch (const chaiscript::detail::exception::bad_any_cast &) {
    g.kind = 2;
  } catch (...) {
    g.kind = 3;
  }
  std::string why;
  if (g.kind != e.kind) why = "outcome kind differs (0 value,1 arithmetic_error,2 bad_any_cast,3 other,4 lhs updated)";
  else if (g.kind == 0 && g.type != e.type) why = "result type differs from the C++ expression's type";
  else if (g.kind == 0 && !(g.val == e.val || (g.is_nan && e.is_nan))) why = "result value differs from the C++ expression's value";
  else if (g.kind == 4 && !(lobj == lobj_expected || (lobj != lobj && lobj_expected != lobj_expected))) why = "left operand not updated in place to the C++ result";
  else if (g.kind != 4 && lhsmode == 0 && !(lobj == l || (l != l))) why = "left operand modified by a non-assigning operator";
  if (!why.empty()) {
    if (print)
      std::printf("{\"L\":\"%s\",\"R\":\"%s\",\"opcode\":%d,\"lhs\":\"%.21Lg\",\"rhs\":\"%.21Lg\",\"lhsmode\":%d,\"violated\":\"%s\",\"got\":{\"kind\":%d,\"type\":\"%s\",\"val\":\"%.21Lg\"},\"expected\":{\"kind\":%d,\"type\":\"%s\",\"val\":\"%.21Lg\"}}\n",
                  tname<L>(), std::string(tname<R>()).c_str(), int(op), static_cast<long double>(l), static_cast<long double>(r), lhsmode, why.c_str(), g.kind, g.type.c_str(), g.val,
                  e.kind, e.type.c_str(), e.val);
    return 1;
  }
  return 0;
}

template<typename T> static std::vector<T> boundary() {
  std::vector<T> v;
  using NL = std::numeric_limits<T>;
  if constexpr (std::is_floating_point_v<T>) {
    v = {T(0), T(1), T(-1), T(2), T(0.5), NL::max(), NL::lowest(), NL::min(), NL::infinity(), -NL::infinity(), NL::quiet_NaN(), T(3), T(-7)};
  } else {
    v = {T(0), T(1), T(2), T(3), T(7), NL::max(), T(NL::max() - 1), NL::min(), T(NL::min() + 1), T(NL::max() / 2 + 1), T(31), T(63)};
    if constexpr (std::is_signed_v<T>) { v.push_back(T(-1)); v.push_back(T(-2)); v.push_back(T(-7)); }
  }
  return v;
}

// run fn in a child; returns 0 ok, 1 failing (output already printed by child), 2 crashed
template<typename F> static int in_child(F fn, int &sig) {
  std::fflush(stdout);
  pid_t pid = fork();
  if (pid == 0) { int r = fn(); std::fflush(stdout); _exit(r ? 1 : 0); }
  int st = 0;
  waitpid(pid, &st, 0);
  if (WIFSIGNALED(st)) { sig = WTERMSIG(st); return 2; }
  return WEXITSTATUS(st);
}

template<typename L, typename R> static int search(long limit) {
  long found = 0, n = 0;
  auto ls = boundary<L>();
  auto rs = boundary<R>();
  for (int op = 0; op < int(Op::invalid) && found < limit; ++op) {
    for (int mode = 0; mode < 3 && found < limit; ++mode) {
      // one child per (op,mode): cheap; on crash, re-run per case to find the culprit
      int sig = 0;
      int rc = in_child([&] { int bad = 0; for (L l : ls) for (R r : rs) { bad |= one_case<L, R>(Op(op), l, r, mode, false); } return bad; }, sig);
      n += long(ls.size() * rs.size());
      if (rc == 0) continue;
      for (L l : ls) for (R r : rs) {
        if (found >= limit) break;
        int s2 = 0;
        int rc2 = in_child([&] { return one_case<L, R>(Op(op), l, r, mode, true); }, s2);
        if (rc2 == 2) {
          std::printf("{\"L\":\"%s\",\"R\":\"%s\",\"opcode\":%d,\"lhs\":\"%.21Lg\",\"rhs\":\"%.21Lg\",\"lhsmode\":%d,\"violated\":\"CRASH signal %d (process killed instead of an exception)\"}\n",
                      tname<L>(), std::string(tname<R>()).c_str(), op, static_cast<long double>(l), static_cast<long double>(r), mode, s2);
          ++found;
        } else if (rc2 == 1) ++found;
      }
    }
  }
  std::fprintf(stderr, "probe_number %s %s: %ld cases, %ld failing\n", tname<L>(), std::string(tname<R>()).c_str(), n, found);
  return found ? 1 : 0;
}

template<typename L, typename R> static int run(int argc, char **argv) {
  std::string mode = argv[1];
  if (mode == "search") return search<L, R>(argc > 4 ? std::atol(argv[4]) : 4);
  Op op = Op(std::atoi(argv[4]));
  L l = static_cast<L>(std::strtold(argv[5], nullptr));
  R r = static_cast<R>(std::strtold(argv[6], nullptr));
  if constexpr (!std::is_floating_point_v<L>) l = static_cast<L>(std::is_signed_v<L> ? std::strtoll(argv[5], nullptr, 10) : std::strtoull(argv[5], nullptr, 10));
  if constexpr (!std::is_floating_point_v<R>) r = static_cast<R>(std::is_signed_v<R> ? std::strtoll(argv[6], nullptr, 10) : std::strtoull(argv[6], nullptr, 10));
  int lm = std::atoi(argv[7]);
  int sig = 0;
  int rc = in_child([&] { return one_case<L, R>(op, l, r, lm, true); }, sig);
  if (rc == 2) { std::printf("{\"violated\":\"CRASH signal %d\"}\n", sig); return 1; }
  return rc;
}

template<typename L> static int disp_r(const std::string &r, int argc, char **argv) {
#define RR(s, T) if (r == s) return run<L, T>(argc, argv);
  RR("i8", std::int8_t) RR("u8", std::uint8_t) RR("i16", std::int16_t) RR("u16", std::uint16_t) RR("i32", std::int32_t) RR("u32", std::uint32_t)
  RR("i64", std::int64_t) RR("u64", std::uint64_t) RR("f32", float) RR("f64", double) RR("f80", long double)
#undef RR
  return 3;
}

template<typename T> static int check_common(const char *name, long &n) {
  ++n;
  // a boxed T must be visited as the fixed-width type of the same size / signedness / floating-ness
  Boxed_Value bv = const_var(T(1));
  auto ct = Boxed_Number::get_common_type(bv);
  using CT = Boxed_Number::Common_Types;
  CT want;
  if constexpr (std::is_floating_point_v<T>) want = sizeof(T) == 4 ? CT::t_float : sizeof(T) == 8 ? CT::t_double : CT::t_long_double;
  else {
    constexpr bool sg = std::is_signed_v<T>;
    want = sizeof(T) == 1 ? (sg ? CT::t_int8 : CT::t_uint8) : sizeof(T) == 2 ? (sg ? CT::t_int16 : CT::t_uint16)
         : sizeof(T) == 4 ? (sg ? CT::t_int32 : CT::t_uint32) : (sg ? CT::t_int64 : CT::t_uint64);
  }
  if (ct != want) { std::printf("{\"violated\":\"get_common_type(%s) wrong\",\"got\":%d,\"want\":%d}\n", name, int(ct), int(want)); return 1; }
  return 0;
}

int main(int argc, char **argv) {
  if (argc >= 2 && std::string(argv[1]) == "types") {
    long n = 0;
    int bad = 0;
#define CC(T) bad |= check_common<T>(#T, n);
    CC(int) CC(double) CC(long double) CC(float) CC(char) CC(unsigned char) CC(unsigned int) CC(long) CC(long long) CC(unsigned long)
    CC(unsigned long long) CC(std::int8_t) CC(std::int16_t) CC(std::int32_t) CC(std::int64_t) CC(std::uint8_t) CC(std::uint16_t)
    CC(std::uint32_t) CC(std::uint64_t) CC(wchar_t) CC(char16_t) CC(char32_t) CC(short) CC(unsigned short) CC(signed char)
#undef CC
    std::fprintf(stderr, "probe_number types: %ld types, %s\n", n, bad ? "MISMATCH" : "ok");
    return bad;
  }
  if (argc < 4) return 3;
  std::string l = argv[2], r = argv[3];
#define LL(s, T) if (l == s) return disp_r<T>(r, argc, argv);
  LL("i8", std::int8_t) LL("u8", std::uint8_t) LL("i16", std::int16_t) LL("u16", std::uint16_t) LL("i32", std::int32_t) LL("u32", std::uint32_t)
  LL("i64", std::int64_t) LL("u64", std::uint64_t) LL("f32", float) LL("f64", double) LL("f80", long double)
#undef LL
  return 3;
}
