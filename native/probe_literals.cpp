// probe_literals: native replay for kernel K5a (C16, integer literal typing) against the REAL engine.
// For every base (decimal, octal, hex, binary) x suffix (none u l ul lu ll ull llu, both cases) x
// boundary value, the literal must evaluate to exactly its value in the first type of the C++
// [lex.icon] sequence that can hold it (cases where no type of the sequence holds it are skipped).
// usage: probe_literals search -> JSON lines of failing cases, exit 1 if any
#include <climits>
#include <cstdio>
#include <string>
#include <typeinfo>
#include <vector>
#include <chaiscript/chaiscript.hpp>

static std::string digits(unsigned long long v, int base) {
  if (v == 0) return "0";
  std::string s;
  while (v) { s.insert(s.begin(), "0123456789abcdef"[v % unsigned(base)]); v /= unsigned(base); }
  return s;
}
enum T { NONE, I, UI, L, UL, LL, ULL };
static const char *tname(int t) { static const char *n[] = {"none", "int", "unsigned int", "long", "unsigned long", "long long", "unsigned long long"}; return n[t]; }
static int spec(bool dec, bool u, int l, unsigned long long v) {
  if (!u && l == 0 && v <= INT_MAX) return I;
  if ((u || !dec) && l == 0 && v <= UINT_MAX) return UI;
  if (!u && l <= 1 && v <= (unsigned long long)LONG_MAX) return L;
  if ((u || !dec) && l <= 1 && v <= ULONG_MAX) return UL;
  if (!u && v <= (unsigned long long)LLONG_MAX) return LL;
  if (u || !dec) return ULL;
  return NONE;
}
#include <cmath>
#include <cstring>
// floating literals: the real engine against strtod / strtold, within 4 ulp (the property's "few units in the last place")
static int floats(chaiscript::ChaiScript &chai) {
  const char *lits[] = {"0.5", "1.25", "3.14159265358979", "0.000000000931", "2.718281828459045", "123456.789012345678", "0.1", "0.30000000000000004",
                        "1e10", "1.5e-7", "6.02214076e23", "9.999999999", "0.12345678901", "1.0000000001", "12345678901234567890.0", "1.7976931348623157e308",
                        "2.5f", "0.1f", "3.14159265358979f", "1e-3f", "0.1l", "3.14159265358979323846l"};
  long n = 0, bad = 0;
  for (const char *l : lits) {
    ++n;
    const std::string text = l;
    std::string why;
    try {
      chaiscript::Boxed_Value bv = chai.eval(text);
      const char last = text.back();
      long double got, want, ulp;
      if (last == 'f') { float g = chai.boxed_cast<float>(bv); float w = std::strtof(text.substr(0, text.size() - 1).c_str(), nullptr); got = g; want = w; ulp = std::fabs(std::nextafter(w, INFINITY) - w); }
      else if (last == 'l') { long double g = chai.boxed_cast<long double>(bv); long double w = std::strtold(text.substr(0, text.size() - 1).c_str(), nullptr); got = g; want = w; ulp = std::fabs(std::nextafter(w, (long double)INFINITY) - w); }
      else { double g = chai.boxed_cast<double>(bv); double w = std::strtod(text.c_str(), nullptr); got = g; want = w; ulp = std::fabs(std::nextafter(w, INFINITY) - w); }
      if (!(std::fabs(got - want) <= 4 * ulp)) why = "value is more than 4 ulp away from the correctly rounded value";
    } catch (const std::exception &e) { why = std::string("rejected: ") + e.what(); }
    if (!why.empty()) { ++bad; if (bad <= 8) std::printf("{\"literal\":\"%s\",\"violated\":\"%s\"}\n", text.c_str(), why.c_str()); }
  }
  std::fprintf(stderr, "probe_literals floats: %ld literals, %ld failing\n", n, bad);
  return bad ? 1 : 0;
}
int main(int argc, char **argv) {
  chaiscript::ChaiScript chai;
  if (argc > 1 && std::string(argv[1]) == "floats") return floats(chai);
  const std::vector<unsigned long long> vals = {0, 1, 7, INT_MAX - 1ull, INT_MAX, INT_MAX + 1ull, UINT_MAX - 1ull, UINT_MAX, UINT_MAX + 1ull, (unsigned long long)LONG_MAX - 1, (unsigned long long)LONG_MAX, (unsigned long long)LONG_MAX + 1, ULLONG_MAX - 1, ULLONG_MAX};
  const char *sufs[] = {"", "u", "U", "l", "L", "ul", "UL", "lu", "ll", "LL", "ull", "ULL", "llu"};
  const int bases[] = {10, 8, 16, 2};
  long n = 0, bad = 0;
  for (int base : bases) for (const char *sf : sufs) for (unsigned long long v : vals) {
    const std::string suf = sf;
    bool u = false; int l = 0;
    for (char c : suf) { if (c == 'u' || c == 'U') u = true; else ++l; }
    const int want = spec(base == 10, u, l, v);
    if (want == NONE) continue;
    if (base == 8 && v == 0) continue; // "00": fine but identical to decimal 0 handling
    const std::string text = (base == 16 ? "0x" : base == 2 ? "0b" : base == 8 ? "0" : "") + digits(v, base) + suf;
    ++n;
    std::string why;
    try {
      chaiscript::Boxed_Value bv = chai.eval(text);
      const std::type_info &ti = *bv.get_type_info().bare_type_info();
      int got = ti == typeid(int) ? I : ti == typeid(unsigned int) ? UI : ti == typeid(long) ? L : ti == typeid(unsigned long) ? UL : ti == typeid(long long) ? LL : ti == typeid(unsigned long long) ? ULL : NONE;
      if (got != want) why = std::string("typed ") + tname(got) + ", C++ types it " + tname(want);
      else {
        unsigned long long gv = chaiscript::Boxed_Number(bv).get_as<unsigned long long>();
        if (gv != v) why = "value " + std::to_string(gv) + " differs from the written value";
      }
    } catch (const std::exception &e) { why = std::string("rejected: ") + e.what(); }
    if (!why.empty()) { ++bad; if (bad <= 8) std::printf("{\"literal\":\"%s\",\"violated\":\"%s\"}\n", text.c_str(), why.c_str()); }
  }
  std::fprintf(stderr, "probe_literals: %ld literals, %ld failing\n", n, bad);
  return bad ? 1 : 0;
}
