// probe_parser: native replay / twin harness for kernels K1 (Position) and K2 (lexers).
// Calls the REAL functions from /repo/include (private members reached with
// g++ -fno-access-control in this TU only) and the generated C twin, on the same inputs,
// under ASan.  Evaluates the contracts' postconditions natively on the real code.
//
// usage: probe_parser <fn> search <maxlen>            enumerate small inputs, print failing cases
//        probe_parser <fn> case <hexbuf> <off> <line> <col> <lastcol> <arg>   run one case
// output: one JSON object per failing case on stdout; exit 0 = no failure, 1 = failure found.
#include <algorithm>
#include <array>
#include <csetjmp>
#include <csignal>
#include <cstdint>
#include <cstdio>
#include <cstdlib>
#include <cstring>
#include <functional>
#include <iostream>
#include <map>
#include <memory>
#include <set>
#include <sstream>
#include <string>
#include <string_view>
#include <vector>
#include <sys/wait.h>
#include <unistd.h>
#include <future>
#include <thread>
#include <mutex>
#include <shared_mutex>
#include <list>
#include <stdexcept>
#include <typeinfo>
#include <type_traits>
#include <utility>
#include <iterator>
#include <limits>
#include <cmath>
#include <cassert>
#include <exception>
#include <fstream>
#include <unordered_set>
#include <unordered_map>
#include <atomic>
#include <cctype>
#include <initializer_list>
#include <numeric>
#include <tuple>
#include <regex>

#include <fcntl.h>
// compiled with g++ -fno-access-control: private members of the real classes are reachable
// from this TU only; the headers themselves are untouched.
#include <chaiscript/chaiscript_basic.hpp>
#include <chaiscript/language/chaiscript_parser.hpp>

extern "C" {
typedef struct CPosition {
  int line;
  int col;
  const char *m_pos;
  const char *m_end;
  int m_last_col;
} CPosition;
typedef struct CParser {
  CPosition m_position;
  size_t m_current_parse_depth;
} CParser;
typedef struct CStatic_String {
  size_t m_size;
  const char *data;
} CStatic_String;
jmp_buf verif_jmp;
extern int verif_thrown;
void Position_inc(CPosition *);
void Position_dec(CPosition *);
CPosition Position_plus(const CPosition *, size_t);
void Position_pluseq(CPosition *, size_t);
CPosition Position_minus(const CPosition *, size_t);
void Position_minuseq(CPosition *, size_t);
bool Position_has_more(const CPosition *);
size_t Position_remaining(const CPosition *);
const char *Position_deref(const CPosition *);
bool Parser_Symbol_(CParser *, const CStatic_String *);
bool Parser_SkipComment(CParser *);
bool Parser_SkipWS(CParser *, bool);
bool Parser_read_exponent_and_suffix(CParser *);
bool Parser_Float_(CParser *);
bool Parser_Hex_(CParser *);
void Parser_IntSuffix_(CParser *);
bool Parser_Binary_(CParser *);
bool Parser_Id_(CParser *);
bool Parser_Quoted_String_(CParser *);
bool Parser_Single_Quoted_String_(CParser *);
bool Parser_Char_(CParser *, const char);
bool Parser_Keyword_(CParser *, const CStatic_String *);
bool Parser_Eol_(CParser *, const bool);
bool Parser_Eol(CParser *);
}

using RP = chaiscript::parser::ChaiScript_Parser<chaiscript::eval::Noop_Tracer, chaiscript::optimizer::Optimizer_Default>;
using RPos = RP::Position;

struct Case {
  std::string buf;
  size_t off;
  int line, col, lastcol;
  int arg; // char / bool / distance / symbol index
};
struct Out {
  bool ran = false;
  long ret = 0;
  long off = 0;
  int line = 0, col = 0, lastcol = 0;
  int thrown = 0; // 0 none, 1 eval_error, 15 other
  size_t depth = 0;
};

static const char *SYMS[] = {"*/", "/*", "//", "#", "\r\n", "", "abc", "="};
static const int NSYMS = 8;

static int kind_of_current_exception() {
  try {
    throw;
  } catch (const chaiscript::exception::eval_error &) {
    return 1;
  } catch (...) {
    return 15;
  }
}

// ---- real code
static Out run_real(const std::string &fn, const Case &c, const char *b) {
  Out o;
  RP p;
  p.m_filename = std::make_shared<std::string>("probe");
  const char *e = b + c.buf.size();
  p.m_position = RPos(b, e);
  p.m_position.m_pos = b + c.off;
  p.m_position.line = c.line;
  p.m_position.col = c.col;
  p.m_position.m_last_col = c.lastcol;
  RPos r = p.m_position;
  chaiscript::utility::Static_String ss("");
  const_cast<size_t &>(ss.m_size) = std::strlen(SYMS[c.arg % NSYMS]);
  ss.data = SYMS[c.arg % NSYMS];
  try {
    if (fn == "Position_inc") { ++r; }
    else if (fn == "Position_dec") { --r; }
    else if (fn == "Position_plus") { r = r + size_t(c.arg); }
    else if (fn == "Position_pluseq") { r += size_t(c.arg); }
    else if (fn == "Position_minus") { r = r - size_t(c.arg); }
    else if (fn == "Position_minuseq") { r -= size_t(c.arg); }
    else if (fn == "Position_has_more") { o.ret = r.has_more(); }
    else if (fn == "Position_remaining") { o.ret = long(r.remaining()); }
    else if (fn == "Position_deref") { o.ret = (unsigned char)(*r); }
    else {
      if (fn == "Parser_Symbol_") o.ret = p.Symbol_(ss);
      else if (fn == "Parser_SkipComment") o.ret = p.SkipComment();
      else if (fn == "Parser_SkipWS") o.ret = p.SkipWS(c.arg & 1);
      else if (fn == "Parser_read_exponent_and_suffix") o.ret = p.read_exponent_and_suffix();
      else if (fn == "Parser_Float_") o.ret = p.Float_();
      else if (fn == "Parser_Hex_") o.ret = p.Hex_();
      else if (fn == "Parser_IntSuffix_") { p.IntSuffix_(); }
      else if (fn == "Parser_Binary_") o.ret = p.Binary_();
      else if (fn == "Parser_Id_") o.ret = p.Id_();
      else if (fn == "Parser_Quoted_String_") o.ret = p.Quoted_String_();
      else if (fn == "Parser_Single_Quoted_String_") o.ret = p.Single_Quoted_String_();
      else if (fn == "Parser_Char_") o.ret = p.Char_(char(c.arg));
      else if (fn == "Parser_Keyword_") o.ret = p.Keyword_(ss);
      else if (fn == "Parser_Eol_") o.ret = p.Eol_(c.arg & 1);
      else if (fn == "Parser_Eol") o.ret = p.Eol();
      else { std::fprintf(stderr, "unknown function %s\n", fn.c_str()); std::exit(3); }
      r = p.m_position;
    }
  } catch (...) {
    o.thrown = kind_of_current_exception();
    r = p.m_position;
  }
  o.ran = true;
  o.off = r.m_pos - b;
  o.line = r.line;
  o.col = r.col;
  o.lastcol = r.m_last_col;
  o.depth = p.m_current_parse_depth;
  return o;
}

// ---- generated C twin
static Out run_twin(const std::string &fn, const Case &c, const char *b) {
  Out o;
  CParser p;
  p.m_current_parse_depth = 0;
  p.m_position = CPosition{c.line, c.col, b + c.off, b + c.buf.size(), c.lastcol};
  CPosition r = p.m_position;
  CStatic_String ss{std::strlen(SYMS[c.arg % NSYMS]), SYMS[c.arg % NSYMS]};
  verif_thrown = 0;
  if (setjmp(verif_jmp) == 0) {
    if (fn == "Position_inc") Position_inc(&r);
    else if (fn == "Position_dec") Position_dec(&r);
    else if (fn == "Position_plus") r = Position_plus(&r, size_t(c.arg));
    else if (fn == "Position_pluseq") Position_pluseq(&r, size_t(c.arg));
    else if (fn == "Position_minus") r = Position_minus(&r, size_t(c.arg));
    else if (fn == "Position_minuseq") Position_minuseq(&r, size_t(c.arg));
    else if (fn == "Position_has_more") o.ret = Position_has_more(&r);
    else if (fn == "Position_remaining") o.ret = long(Position_remaining(&r));
    else if (fn == "Position_deref") o.ret = (unsigned char)*Position_deref(&r);
    else {
      if (fn == "Parser_Symbol_") o.ret = Parser_Symbol_(&p, &ss);
      else if (fn == "Parser_SkipComment") o.ret = Parser_SkipComment(&p);
      else if (fn == "Parser_SkipWS") o.ret = Parser_SkipWS(&p, c.arg & 1);
      else if (fn == "Parser_read_exponent_and_suffix") o.ret = Parser_read_exponent_and_suffix(&p);
      else if (fn == "Parser_Float_") o.ret = Parser_Float_(&p);
      else if (fn == "Parser_Hex_") o.ret = Parser_Hex_(&p);
      else if (fn == "Parser_IntSuffix_") Parser_IntSuffix_(&p);
      else if (fn == "Parser_Binary_") o.ret = Parser_Binary_(&p);
      else if (fn == "Parser_Id_") o.ret = Parser_Id_(&p);
      else if (fn == "Parser_Quoted_String_") o.ret = Parser_Quoted_String_(&p);
      else if (fn == "Parser_Single_Quoted_String_") o.ret = Parser_Single_Quoted_String_(&p);
      else if (fn == "Parser_Char_") o.ret = Parser_Char_(&p, char(c.arg));
      else if (fn == "Parser_Keyword_") o.ret = Parser_Keyword_(&p, &ss);
      else if (fn == "Parser_Eol_") o.ret = Parser_Eol_(&p, c.arg & 1);
      else if (fn == "Parser_Eol") o.ret = Parser_Eol(&p);
      r = p.m_position;
    }
  } else {
    o.thrown = verif_thrown == 1 ? 1 : 15;
    r = p.m_position;
  }
  o.ran = true;
  o.off = r.m_pos - b;
  o.line = r.line;
  o.col = r.col;
  o.lastcol = r.m_last_col;
  o.depth = p.m_current_parse_depth;
  return o;
}

// ---- precondition of the contract (cases outside it are skipped)
static bool pre(const std::string &fn, const Case &c) {
  if (c.off > c.buf.size()) return false;
  if (fn == "Position_dec") return c.off > 0;
  if (fn == "Position_minus" || fn == "Position_minuseq") return c.off >= size_t(c.arg);
  return true;
}

// true line/col by the inductive definition, starting from (line,col) at c.off
static void true_coords(const Case &c, long to, int &line, int &col) {
  line = c.line;
  col = c.col;
  for (long k = long(c.off); k < to; ++k) {
    if (c.buf[size_t(k)] == '\n') { ++line; col = 1; } else { ++col; }
  }
}

// ---- postconditions evaluated on the REAL result; returns "" or the violated clause
static std::string post(const std::string &fn, const Case &c, const Out &o, bool c20) {
  const long len = long(c.buf.size()), off = long(c.off);
  if (o.off < 0 || o.off > len) return "cursor valid (0 <= off' <= len)";
  if (o.thrown == 15) return "throw kinds: only eval_error";
  if (o.thrown) return "";
  auto mn = [](long a, long b) { return a < b ? a : b; };
  if (fn == "Position_inc" && o.off != mn(off + 1, len)) return "off' == min(off+1,len)";
  if (fn == "Position_dec" && o.off != off - 1) return "off' == off-1";
  if ((fn == "Position_plus" || fn == "Position_pluseq") && o.off != mn(off + c.arg, len)) return "off' == min(off+d,len)";
  if ((fn == "Position_minus" || fn == "Position_minuseq") && o.off != off - c.arg) return "off' == off-d";
  if (fn == "Position_has_more" && o.ret != (off != len)) return "has_more == (off != len)";
  if (fn == "Position_remaining" && o.ret != len - off) return "remaining == len-off";
  if (fn == "Position_deref" && o.ret != (off < len ? (unsigned char)c.buf[size_t(off)] : 0)) return "deref == buf[off] or NUL at end";
  if (fn.rfind("Parser_", 0) == 0) {
    if (o.off < off) return "off' >= off";
    if (o.depth != 0) return "parse depth restored";
  }
  const long symlen = long(std::strlen(SYMS[c.arg % NSYMS]));
  if (fn == "Parser_Symbol_" || fn == "Parser_Keyword_") {
    if (o.ret && o.off != off + symlen) return "ret ==> off' == off + size";
    if (!o.ret && o.off != off) return "!ret ==> off' == off";
  }
  if (fn == "Parser_Char_") {
    if (o.ret && o.off != off + 1) return "ret ==> off' == off+1";
    if (!o.ret && o.off != off) return "!ret ==> off' == off";
  }
  if (fn == "Parser_Eol_") {
    if (o.ret && !(o.off > off && o.off <= off + 2)) return "ret ==> off < off' <= off+2";
    if (!o.ret && o.off != off) return "!ret ==> off' == off";
  }
  if (fn == "Parser_SkipComment") {
    if (o.ret && !(o.off > off)) return "ret ==> off' > off";
    if (!o.ret && o.off != off) return "!ret ==> off' == off";
  }
  if (fn == "Parser_SkipWS" || fn == "Parser_Id_" || fn == "Parser_Quoted_String_" || fn == "Parser_Single_Quoted_String_") {
    if (!o.ret && o.off != off) return "!ret ==> off' == off";
  }
  if (c20 && fn != "Position_dec" && fn != "Position_minus" && fn != "Position_minuseq" && fn != "Position_has_more"
      && fn != "Position_remaining" && fn != "Position_deref") {
    int tl, tc;
    true_coords(c, o.off, tl, tc);
    if (o.line != tl || o.col != tc) return "line/col equal the true coordinates of the new offset";
  }
  return "";
}

static std::string hex(const std::string &s) {
  static const char *d = "0123456789abcdef";
  std::string r;
  for (unsigned char ch : s) { r += d[ch >> 4]; r += d[ch & 15]; }
  return r;
}
static std::string unhex(const std::string &h) {
  std::string r;
  for (size_t i = 0; i + 1 < h.size(); i += 2) r += char(std::stoi(h.substr(i, 2), nullptr, 16));
  return r;
}

static void report(const std::string &fn, const Case &c, const std::string &what, const Out *real, const Out *twin) {
  std::printf("{\"fn\":\"%s\",\"buf_hex\":\"%s\",\"off\":%zu,\"line\":%d,\"col\":%d,\"lastcol\":%d,\"arg\":%d,\"violated\":\"%s\"",
              fn.c_str(), hex(c.buf).c_str(), c.off, c.line, c.col, c.lastcol, c.arg, what.c_str());
  if (real) std::printf(",\"real\":{\"ret\":%ld,\"off\":%ld,\"line\":%d,\"col\":%d,\"thrown\":%d}", real->ret, real->off, real->line, real->col, real->thrown);
  if (twin) std::printf(",\"twin\":{\"ret\":%ld,\"off\":%ld,\"line\":%d,\"col\":%d,\"thrown\":%d}", twin->ret, twin->off, twin->line, twin->col, twin->thrown);
  std::printf("}\n");
  std::fflush(stdout);
}

// run one case in a forked child so that ASan aborts / signals are observed, not fatal.
// mode: 0 = real+post, 1 = real vs twin
static int run_case(const std::string &fn, const Case &c, bool c20, bool twin) {
  if (!pre(fn, c)) return 0;
  // exact-size heap buffer: an out-of-bounds read is an ASan report
  char *b = static_cast<char *>(std::malloc(c.buf.size() ? c.buf.size() : 1));
  if (c.buf.size()) std::memcpy(b, c.buf.data(), c.buf.size());
  Out r = run_real(fn, c, c.buf.size() ? b : b);
  int bad = 0;
  std::string v = post(fn, c, r, c20);
  if (!v.empty()) { report(fn, c, v, &r, nullptr); bad = 1; }
  if (twin) {
    Out t = run_twin(fn, c, b);
    if (t.ret != r.ret || t.off != r.off || t.line != r.line || t.col != r.col || t.lastcol != r.lastcol || t.thrown != r.thrown) {
      report(fn, c, "TWIN-MISMATCH generated C differs from real code", &r, &t);
      bad = 2;
    }
  }
  std::free(b);
  return bad;
}

static const char ALPHA[] = {'/', '*', '#', '\r', '\n', ' ', 'a', '0', 'x', 'b', '1', '.', 'e', '"', '\'', '\\', '`', '$', '{', '}', char(0x80), 0, ';', '-', 'f', 'u', 'l', '+', '\t'};

static std::vector<int> args_for(const std::string &fn) {
  if (fn == "Parser_Symbol_" || fn == "Parser_Keyword_") return {0, 1, 2, 3, 4, 5, 6, 7};
  if (fn == "Parser_SkipWS" || fn == "Parser_Eol_") return {0, 1};
  if (fn == "Parser_Char_") return {'\n', ';', 'a', 0, '/'};
  if (fn.find("plus") != std::string::npos || fn.find("minus") != std::string::npos) return {0, 1, 2, 3, 5};
  return {0};
}

int main(int argc, char **argv) {
  if (argc < 3) return 3;
  std::string fn = argv[1], mode = argv[2];
  bool c20 = std::getenv("PROBE_C20") != nullptr;
  bool twin = std::getenv("PROBE_TWIN") != nullptr;
  if (mode == "case") {
    Case c{unhex(argv[3]), size_t(std::atol(argv[4])), std::atoi(argv[5]), std::atoi(argv[6]), std::atoi(argv[7]), std::atoi(argv[8])};
    int bad = run_case(fn, c, c20, twin);
    return bad ? 1 : 0;
  }
  int maxlen = std::atoi(argv[3]);
  long limit = argc > 4 ? std::atol(argv[4]) : 5;
  // enumerate in a child per (length) so that a crash is attributed; the child writes the
  // current case to a scratch pipe before each call.
  long found = 0, ncases = 0;
  const int NA = int(sizeof(ALPHA));
  for (int len = 0; len <= maxlen && found < limit; ++len) {
    long total = 1;
    for (int i = 0; i < len; ++i) total *= NA;
    long start = 0;
    while (start < total && found < limit) {
      int pfd[2], ofd[2];
      if (pipe(pfd) || pipe(ofd)) return 3;
      std::fflush(stdout);
      pid_t pid = fork();
      if (pid == 0) {
        close(pfd[0]);
        close(ofd[0]);
        dup2(ofd[1], 1);
        int devnull = open("/dev/null", 1);
        dup2(devnull, 2);
        long nbad = 0;
        for (long idx = start; idx < total; ++idx) {
          std::string buf(size_t(len), ' ');
          long k = idx;
          for (int i = 0; i < len; ++i) { buf[size_t(i)] = ALPHA[k % NA]; k /= NA; }
          for (size_t off = 0; off <= size_t(len); ++off) {
            for (int a : args_for(fn)) {
              Case c{buf, off, 3, 7, 5, a};
              // progress record: idx so the parent can resume after a crash
              long rec[3] = {idx, long(off), long(a)};
              if (write(pfd[1], rec, sizeof(rec)) < 0) _exit(4);
              if (run_case(fn, c, c20, twin)) ++nbad;
              if (nbad >= limit) _exit(1);
            }
          }
        }
        _exit(nbad ? 1 : 0);
      }
      close(pfd[1]);
      close(ofd[1]);
      // drain progress + output
      long rec[3] = {start, 0, 0}, last[3] = {start, 0, 0};
      std::string outbuf;
      fd_set fds;
      bool p_open = true, o_open = true;
      while (p_open || o_open) {
        FD_ZERO(&fds);
        int mx = 0;
        if (p_open) { FD_SET(pfd[0], &fds); mx = std::max(mx, pfd[0]); }
        if (o_open) { FD_SET(ofd[0], &fds); mx = std::max(mx, ofd[0]); }
        if (select(mx + 1, &fds, nullptr, nullptr, nullptr) <= 0) break;
        if (p_open && FD_ISSET(pfd[0], &fds)) {
          char tmp[4096 * 24];
          ssize_t n = read(pfd[0], tmp, sizeof(tmp));
          if (n <= 0) p_open = false;
          else if (n >= ssize_t(sizeof(rec))) { std::memcpy(last, tmp + (n / ssize_t(sizeof(rec)) - 1) * sizeof(rec), sizeof(rec)); ncases += n / ssize_t(sizeof(rec)); }
        }
        if (o_open && FD_ISSET(ofd[0], &fds)) {
          char tmp[4096];
          ssize_t n = read(ofd[0], tmp, sizeof(tmp));
          if (n <= 0) o_open = false; else outbuf.append(tmp, size_t(n));
        }
      }
      close(pfd[0]);
      close(ofd[0]);
      int st = 0;
      waitpid(pid, &st, 0);
      if (!outbuf.empty()) { std::fwrite(outbuf.data(), 1, outbuf.size(), stdout); found += std::count(outbuf.begin(), outbuf.end(), '\n'); }
      if (WIFEXITED(st) && (WEXITSTATUS(st) == 0 || WEXITSTATUS(st) == 1)) { start = total; }
      else {
        // crash (ASan abort / signal) at case `last`
        std::string buf(size_t(len), ' ');
        long k = last[0];
        for (int i = 0; i < len; ++i) { buf[size_t(i)] = ALPHA[k % NA]; k /= NA; }
        Case c{buf, size_t(last[1]), 3, 7, 5, int(last[2])};
        report(fn, c, WIFSIGNALED(st) ? "CRASH signal (memory safety)" : "CRASH sanitizer abort (memory safety: read/write outside the input buffer)", nullptr, nullptr);
        ++found;
        start = last[0] + 1;
      }
    }
  }
  std::fprintf(stderr, "probe_parser %s: %ld cases, %ld failing\n", fn.c_str(), ncases, found);
  return found ? 1 : 0;
}
