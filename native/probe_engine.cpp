// probe_engine: native replay battery against the REAL engine for kernels whose obligations are about
// engine-level behaviour (C04 lookup, C06 arity gates, C07 const gate, C19 use()).  Each scenario states the property
// clause it exercises; a failing scenario prints one JSON line.  usage: probe_engine <c04|c06|c07|c19> [tmpdir]
#include <cstdio>
#include <fstream>
#include <functional>
#include <string>
#include <vector>
#include <chaiscript/chaiscript.hpp>

static int bad = 0;
static void fail(const std::string &what, const std::string &why) { std::printf("{\"scenario\":\"%s\",\"violated\":\"%s\"}\n", what.c_str(), why.c_str()); ++bad; }
template<typename F> static bool throws(F f) { try { f(); } catch (...) { return true; } return false; }

static int take_ref(int &i) { i = 99; return i; }
static int take_rref(std::string &&s) { s = "changed"; return 1; }
static int one_arg(int) { return 1; }

static int c07() {
  chaiscript::ChaiScript chai;
  chai.add(chaiscript::fun(&take_ref), "take_ref");
  chai.add(chaiscript::fun(&take_rref), "take_rref");
  chai.add_global_const(chaiscript::const_var(5), "K");
  chai.add_global_const(chaiscript::const_var(std::string("text")), "S");
  const char *mutators[] = {"K = 1", "K := 1", "K += 1", "K -= 1", "K *= 2", "K /= 2", "K %= 2", "K <<= 1", "K |= 1", "++K", "--K", "`+=`(K, 1)", "`=`(K, 0)", "`++`(K)",
                            "take_ref(K)", "var &r = K; r = 2", "var &r2 = K; ++r2", "var &r3 = K; `+=`(r3, 1)", "auto q := K; `++`(q)", "take_rref(S)", "S += \"x\"", "S.clear()", "S.push_back('c')", "S = \"other\""};
  for (const char *m : mutators) {
    bool threw = throws([&] { chai.eval(m); });
    int k = chai.eval<int>("K");
    std::string s = chai.eval<std::string>("S");
    if (k != 5 || s != "text") fail(m, "a const value was modified from script");
    else if (!threw) fail(m, "modifying a const value did not raise an error");
  }
  return bad;
}

static int c06() {
  chaiscript::ChaiScript chai;
  chai.add(chaiscript::fun(&one_arg), "one_arg");
  chai.add(chaiscript::fun([](const std::function<int(int)> &f) { return f(1); }), "only_unary");
  chai.add(chaiscript::fun([](const std::string &) { return 1; }), "one_str");
  if (!throws([&] { chai.eval("one_str(\"a\", \"b\")"); })) fail("one_str(a, b)", "a function with one (non-arithmetic) parameter was entered with two arguments");
  if (!throws([&] { chai.eval("var g = one_str; g(\"a\", \"b\", \"c\")"); })) fail("g(a, b, c)", "a function object was entered with surplus arguments");
  if (!throws([&] { chai.eval("one_arg(1, 2)"); })) fail("one_arg(1, 2)", "a function was entered with the wrong number of arguments");
  if (!throws([&] { chai.eval("var f = one_arg; f(1, 2, 3)"); })) fail("f(1, 2, 3)", "a function was entered with the wrong number of arguments");
  if (!throws([&] { chai.eval("one_arg()"); })) fail("one_arg()", "a function was entered with too few arguments");
  if (!throws([&] { chai.eval("only_unary(fun(a, b) { a + b })"); })) fail("only_unary(fun(a, b))", "a two-parameter script function was accepted as std::function<int(int)>");
  if (throws([&] { if (chai.eval<int>("only_unary(fun(a) { a + 1 })") != 2) throw 1; })) fail("only_unary(fun(a))", "a matching script function was refused");
  if (!throws([&] { (void)chai.eval<std::function<int(int)>>("fun(a, b) { a }"); })) fail("eval<std::function<int(int)>>", "a two-parameter script function was handed to C++ as std::function<int(int)>");
  if (!throws([&] { chai.eval("one_arg(\"text\")"); })) fail("one_arg(\"text\")", "a function was entered with a wrongly typed argument");
  return bad;
}

static int c04() {
  chaiscript::ChaiScript chai;
  auto expect = [&](const std::string &script, int want) {
    try { int got = chai.eval<int>(script); if (got != want) fail(script, "resolved to " + std::to_string(got) + " instead of " + std::to_string(want)); }
    catch (const std::exception &e) { fail(script, std::string("raised ") + e.what()); }
  };
  expect("var a = 1; { var a = 2; { var a = 3; a } }", 3);
  expect("def sh(x) { var r = 0; for (var i = 0; i < 3; ++i) { var x = i * 10; r = x }; r + x }; sh(5) + sh(7)", 52);
  expect("def twice() { var s = 0; for (var i = 0; i < 2; ++i) { var p = 1; var q = 2; s += q }; s }; twice() + twice()", 8);
  expect("global g_or_f = 41; def g_or_f() { 7 }; def rd() { g_or_f }; rd() + 1", 42);
  // a scope with more slots than a 12 bit field can index, evaluated twice through the same node
  std::string many = "def big() { ";
  for (int i = 0; i < 4200; ++i) many += "var v" + std::to_string(i) + " = " + std::to_string(i) + "; ";
  many += "var s = 0; for (var j = 0; j < 2; ++j) { s += v4150 }; s }; big()";
  expect(many, 8300);
  return bad;
}

static int c19(const std::string &dir) {
  auto put = [&](const std::string &name, const std::string &content) { std::ofstream o(dir + "/" + name, std::ios::binary | std::ios::trunc); o << content; };
  std::system(("mkdir -p " + dir + "/a " + dir + "/b").c_str());
  put("a/once.chai", "global counter = counter + 1");
  put("b/once.chai", "global counter = counter + 100");
  put("b/only_b.chai", "global counter = counter + 1000");
  put("a/nested.chai", "use(\"does_not_exist_anywhere.chai\")");
  {
    chaiscript::ChaiScript chai({}, {dir + "/a/", dir + "/b/"});
    chai.eval("global counter = 0");
    chai.use("once.chai"); chai.use("once.chai"); chai.eval("use(\"once.chai\")");
    if (chai.eval<int>("counter") != 1) fail("use(once.chai) x3", "use() did not evaluate the file of the FIRST configured path exactly once: counter = " + std::to_string(chai.eval<int>("counter")));
    chai.use("only_b.chai");
    if (chai.eval<int>("counter") != 1001) fail("use(only_b.chai)", "a file found on the second path was not evaluated once");
    bool fnf = false; std::string name;
    try { chai.use("missing.chai"); } catch (const chaiscript::exception::file_not_found_error &e) { fnf = true; name = e.filename; } catch (...) {}
    if (!fnf) fail("use(missing.chai)", "a missing file did not raise file_not_found_error");
    put("a/missing.chai", "global counter = counter + 5");
    if (throws([&] { chai.use("missing.chai"); }) || chai.eval<int>("counter") != 1006) fail("use(missing.chai) after it was created", "a failed use() left the name recorded as used");
    fnf = false;
    try { chai.use("nested.chai"); } catch (const chaiscript::exception::file_not_found_error &e) { fnf = (e.filename.find("does_not_exist_anywhere.chai") != std::string::npos); } catch (...) {}
    if (!fnf) fail("use(nested.chai)", "a failed nested include did not propagate its own file_not_found_error");
  }
  {
    chaiscript::ChaiScript chai({}, {dir + "/b/", dir + "/a/"});
    chai.eval("global counter = 0");
    chai.use("once.chai");
    if (chai.eval<int>("counter") != 100) fail("use paths {b, a}", "the use paths were not searched in the configured order");
  }
  return bad;
}

int main(int argc, char **argv) {
  const std::string mode = argc > 1 ? argv[1] : "";
  int r = mode == "c07" ? c07() : mode == "c06" ? c06() : mode == "c04" ? c04() : mode == "c19" ? c19(argc > 2 ? argv[2] : "/tmp") : 3;
  std::fprintf(stderr, "probe_engine %s: %d failing\n", mode.c_str(), bad);
  return r ? 1 : 0;
}
