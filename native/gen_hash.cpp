// prints utility::hash(literal) for each argv literal as computed by the real header
#include <chaiscript/utility/hash.hpp>
#include <cstdio>
#include <string_view>
int main(int argc, char **argv) {
  for (int i = 1; i < argc; ++i) std::printf("%u\n", chaiscript::utility::hash(std::string_view(argv[i])));
  return 0;
}
