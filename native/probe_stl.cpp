// probe_stl: native replay for kernel K8 (C12): the REAL script-facing container callables of
// bootstrap_stl.hpp, driven through a real ChaiScript engine (built with ASan), compared with a
// std::vector<int> / std::string model: every operation either has the std effect or - when an
// index / position / emptiness precondition is violated - raises an exception.  Each case runs in
// a forked child so that a crash or an ASan report is observed as "reproduced", not as a dead probe.
// usage: probe_stl search [filter] [extra_arg]   -> JSON lines of failing cases on stdout, exit 1 if any
//        probe_stl case <kind> <op> <n> <arg>
#include <cstdio>
#include <cstdlib>
#include <cstring>
#include <list>
#include <string>
#include <vector>
#include <sys/wait.h>
#include <unistd.h>
#include <chaiscript/chaiscript.hpp>

static chaiscript::ChaiScript *chai;
// ASan reads its options before main(): a report ends the child with exit code 86, quietly
extern "C" const char *__asan_default_options() { return "detect_leaks=0:exitcode=86:log_path=/dev/null:print_summary=0"; }

static std::string lit(const std::string &kind, int n) {
  if (kind == "string") { std::string s = "\""; for (int i = 0; i < n; ++i) s += char('a' + i); return s + "\""; }
  std::string s = "[";
  for (int i = 0; i < n; ++i) { if (i) s += ","; s += std::to_string(i); }
  s += "]";
  if (kind == "List") { return "List(); for (x : " + s + ") { c.push_back(x); }"; }
  return s;
}

// returns "" when the property holds for this case, else a description
static std::string run_case(const std::string &kind, const std::string &op, int n, long arg) {
  std::vector<int> model;
  for (int i = 0; i < n; ++i) model.push_back(kind == "string" ? 'a' + i : i);
  chai->eval("var c = " + lit(kind, n) + ";");
  bool must_throw = false;
  std::string script;
  long want_val = -1;
  bool has_val = false;
  const std::string A = std::to_string(arg);
  if (op == "[]") { must_throw = arg < 0 || arg >= n; script = "c[" + A + "]"; if (!must_throw) { want_val = model[size_t(arg)]; has_val = true; } }
  else if (op == "front") { must_throw = n == 0; script = "c.front()"; if (n) { want_val = model.front(); has_val = true; } }
  else if (op == "back") { must_throw = n == 0; script = "c.back()"; if (n) { want_val = model.back(); has_val = true; } }
  else if (op == "pop_back") { must_throw = n == 0; script = "c.pop_back()"; if (n) model.pop_back(); }
  else if (op == "pop_front") { must_throw = n == 0; script = "c.pop_front()"; if (n) model.erase(model.begin()); }
  else if (op == "erase_at") { must_throw = arg < 0 || arg >= n; script = "c.erase_at(" + A + ")"; if (!must_throw) model.erase(model.begin() + arg); }
  else if (op == "insert_at") { must_throw = arg < 0 || arg > n; script = kind == "string" ? "c.insert_at(" + A + ", 'z')" : "c.insert_at(" + A + ", 99)"; if (!must_throw) model.insert(model.begin() + arg, kind == "string" ? 'z' : 99); }
  else if (op == "range_front" || op == "range_back" || op == "range_pop_front" || op == "range_pop_back") {
    // arg = number of pops before the operation
    script = "var r = range(c); for (var i = 0; i < " + A + "; ++i) { r.pop_front(); }; ";
    const long left = n - arg;
    must_throw = arg < 0 ? false : (arg > n || left <= 0);
    if (arg < 0) return "";
    if (op == "range_front") { script += "r.front()"; if (!must_throw) { want_val = model[size_t(arg)]; has_val = true; } }
    if (op == "range_back") { script += "r.back()"; if (!must_throw) { want_val = model.back(); has_val = true; } }
    if (op == "range_pop_front") script += "r.pop_front(); r.empty()";
    if (op == "range_pop_back") script += "r.pop_back(); r.empty()";
  }
  else if (op == "substr") { if (kind != "string") return ""; must_throw = arg < 0 ? false : arg > n; if (arg < 0) return ""; script = "c.substr(" + A + ", 2).size()"; if (!must_throw) { want_val = long(std::string(size_t(n), 'x').substr(size_t(arg), 2).size()); has_val = true; } }
  else if (op == "resize") { if (kind == "string" || arg < 0 || arg > 16) return ""; script = "c.resize(" + A + ")"; model.resize(size_t(arg)); }
  else return "";
  bool threw = false;
  long got_val = -1;
  try {
    chaiscript::Boxed_Value bv = chai->eval(script);
    if (has_val) {
      if (kind == "string" && (op == "[]" || op == "front" || op == "back" || op.rfind("range_", 0) == 0)) got_val = chai->boxed_cast<char>(bv);
      else got_val = long(chaiscript::Boxed_Number(bv).get_as<long>());
    }
  } catch (const std::exception &) { threw = true; } catch (const chaiscript::Boxed_Value &) { threw = true; }
  if (must_throw && !threw) return "precondition violated but no exception was raised";
  if (!must_throw && threw) return "operation is defined but an exception was raised";
  if (!must_throw && has_val && got_val != want_val) return "result " + std::to_string(got_val) + " differs from the std model's " + std::to_string(want_val);
  // final content equals the model
  const long sz = long(chai->eval<size_t>("c.size()"));
  if (sz != long(model.size())) return "size " + std::to_string(sz) + " differs from the std model's " + std::to_string(model.size());
  if (kind != "List") {
    for (size_t i = 0; i < model.size() && (op != "resize" || i < size_t(n)); ++i) {
      long e = kind == "string" ? long(chai->eval<char>("c[" + std::to_string(i) + "]")) : long(chai->eval<int>("c[" + std::to_string(i) + "]"));
      if (e != model[i]) return "element " + std::to_string(i) + " differs from the std model";
    }
  }
  return "";
}

static int forked(const std::string &kind, const std::string &op, int n, long arg) {
  fflush(stdout);
  pid_t p = fork();
  if (p == 0) {
    std::string r;
    try { r = run_case(kind, op, n, arg); } catch (const std::exception &e) { r = std::string("probe-level exception: ") + e.what(); }
    if (!r.empty()) { std::printf("{\"kind\":\"%s\",\"op\":\"%s\",\"n\":%d,\"arg\":%ld,\"violated\":\"%s\"}\n", kind.c_str(), op.c_str(), n, arg, r.c_str()); fflush(stdout); _exit(7); }
    _exit(0);
  }
  int st = 0;
  waitpid(p, &st, 0);
  if (WIFSIGNALED(st) || (WIFEXITED(st) && WEXITSTATUS(st) != 0 && WEXITSTATUS(st) != 7)) {
    std::printf("{\"kind\":\"%s\",\"op\":\"%s\",\"n\":%d,\"arg\":%ld,\"violated\":\"%s\"}\n", kind.c_str(), op.c_str(), n, arg,
                WIFSIGNALED(st) ? "killed by a signal (crash)" : WEXITSTATUS(st) == 86 ? "AddressSanitizer report (memory error)" : "abnormal exit");
    return 1;
  }
  return WIFEXITED(st) && WEXITSTATUS(st) == 0 ? 0 : 1;
}

int main(int argc, char **argv) {
  if (argc < 2) return 3;
  chaiscript::ChaiScript engine;
  {
    auto m = std::make_shared<chaiscript::Module>();
    chaiscript::bootstrap::standard_library::list_type<std::list<chaiscript::Boxed_Value>>("List", *m);
    engine.add(m);
  }
  chai = &engine;
  std::string mode = argv[1];
  if (mode == "case" && argc >= 6) return forked(argv[2], argv[3], atoi(argv[4]), atol(argv[5]));
  const std::string filter = argc > 2 ? argv[2] : "";
  const char *kinds[] = {"Vector", "string", "List"};
  const char *ops[] = {"[]", "front", "back", "pop_back", "pop_front", "erase_at", "insert_at", "range_front", "range_back", "range_pop_front", "range_pop_back", "substr", "resize"};
  long cases = 0, bad = 0;
  std::vector<long> args = {-2147483647L - 1, -2, -1, 0, 1, 2, 3, 4, 5, 2147483647L};
  if (argc > 3) args.push_back(atol(argv[3]));
  for (const char *k : kinds) for (const char *o : ops) {
    const std::string kind = k, op = o;
    if (!filter.empty() && op.find(filter) == std::string::npos) continue;
    if (kind == "List" && (op == "[]" || op == "substr")) continue;
    if (kind != "List" && op == "pop_front") continue;
    if (kind == "string" && (op == "front" || op == "back" || op == "pop_back" || op == "resize")) continue;
    for (int n = 0; n <= 3; ++n) for (long a : args) {
      const bool unary = op == "front" || op == "back" || op == "pop_back" || op == "pop_front";
      if (unary && a != 0) continue;
      if ((op.rfind("range_", 0) == 0) && (a < 0 || a > 5)) continue;
      ++cases;
      bad += forked(kind, op, n, a) ? 1 : 0;
      if (bad >= 6) goto done;
    }
  }
done:
  std::fprintf(stderr, "probe_stl: %ld cases, %ld failing\n", cases, bad);
  return bad ? 1 : 0;
}
