// probe_json: native replay for kernel K9 (C18) against the REAL utility/json.hpp (ASan build).
//   tolerance : JSON::Load on every string of length <= 5 over a 16-symbol alphabet of JSON
//               structure bytes, on deeply nested openers and on truncated escapes either returns
//               or throws std::runtime_error / std::out_of_range - never another exception, a
//               crash or a sanitizer report (each batch runs in a forked child)
//   round trip: for every byte string of length <= 2 (all 256 byte values) and a set of longer
//               ones, Load(JSON(s).dump()) is the string s again
// usage: probe_json search   -> JSON lines of failing cases on stdout, exit 1 if any
//        probe_json case <hex of input> | probe_json rt <hex of string>
#include <cstdio>
#include <cstdlib>
#include <algorithm>
#include <string>
#include <vector>
#include <stdexcept>
#include <sys/mman.h>
#include <sys/wait.h>
#include <unistd.h>
#include <chaiscript/chaiscript_defines.hpp>
#include <chaiscript/utility/json.hpp>

extern "C" const char *__asan_default_options() { return "detect_leaks=0:exitcode=86:log_path=/dev/null:print_summary=0:detect_stack_use_after_return=0"; }
using chaiscript::json::JSON;

static std::string hex(const std::string &s) { static const char *d = "0123456789abcdef"; std::string r; for (unsigned char c : s) { r += d[c >> 4]; r += d[c & 15]; } return r; }
static std::string unhex(const std::string &h) { std::string r; for (size_t i = 0; i + 1 < h.size(); i += 2) r += char(std::stoi(h.substr(i, 2), nullptr, 16)); return r; }

// 0 ok, 1 wrong exception kind
static int tolerant(const std::string &in) {
  try { (void)JSON::Load(in); }
  catch (const std::runtime_error &) {}
  catch (const std::out_of_range &) {}
  catch (...) { return 1; }
  return 0;
}
static int roundtrip(const std::string &s) {
  try {
    const std::string text = JSON(s).dump();
    JSON back = JSON::Load(text);
    if (back.JSONType() != JSON::Class::String || back.to_string() != s) return 1;
  } catch (...) { return 1; }
  return 0;
}

template<typename F> static int in_child(F f) {
  fflush(stdout);
  pid_t p = fork();
  if (p == 0) { alarm(20); /* a hang is a violation too: SIGALRM ends the child */ int r = f(); fflush(stdout); _exit(r ? 7 : 0); }
  int st = 0;
  waitpid(p, &st, 0);
  if (WIFEXITED(st) && WEXITSTATUS(st) == 0) return 0;
  if (WIFEXITED(st) && WEXITSTATUS(st) == 7) return 1;
  return 2; // crash / sanitizer
}

int main(int argc, char **argv) {
  const std::string mode = argc > 1 ? argv[1] : "";
  if (mode == "case" && argc > 2) {
    const std::string in = unhex(argv[2]);
    int r = in_child([&] { return tolerant(in); });
    if (r) std::printf("{\"input_hex\":\"%s\",\"violated\":\"%s\"}\n", hex(in).c_str(), r == 2 ? "crash or sanitizer report in JSON::Load" : "exception other than runtime_error/out_of_range");
    return r ? 1 : 0;
  }
  if (mode == "rt" && argc > 2) {
    const std::string s = unhex(argv[2]);
    int r = in_child([&] { return roundtrip(s); });
    if (r) std::printf("{\"string_hex\":\"%s\",\"violated\":\"Load(JSON(s).dump()) != s\"}\n", hex(s).c_str());
    return r ? 1 : 0;
  }
  long cases = 0, bad = 0;
  // --- tolerance battery
  const char alpha[] = {'[', ']', '{', '}', '"', '\\', ',', ':', '-', '1', 'e', 't', ' ', 'u', '.', 'n'};
  const int A = int(sizeof(alpha));
  volatile long *cur = static_cast<volatile long *>(mmap(nullptr, sizeof(long), PROT_READ | PROT_WRITE, MAP_SHARED | MAP_ANONYMOUS, -1, 0));
  for (int len = 0; len <= 5 && bad < 6; ++len) {
    long total = 1;
    for (int i = 0; i < len; ++i) total *= A;
    auto nth = [&](long idx) { std::string s(size_t(len), ' '); long k = idx; for (int i = 0; i < len; ++i) { s[size_t(i)] = alpha[k % A]; k /= A; } return s; };
    // one child per batch; the child publishes the index it is working on, so that after a
    // crash or a hang (SIGALRM after 5 s on one input) the parent knows the culprit and resumes behind it
    long start = 0;
    while (start < total && bad < 6) {
      *cur = start;
      int r = in_child([&] {
        for (long idx = start; idx < total; ++idx) {
          *cur = idx;
          alarm(5);
          if (tolerant(nth(idx))) { return 1; }
        }
        *cur = total;
        return 0;
      });
      const long at = *cur;
      if (r == 0) break;
      ++bad;
      std::printf("{\"input_hex\":\"%s\",\"violated\":\"%s\"}\n", hex(nth(at)).c_str(),
                  r == 2 ? "crash, sanitizer report or hang (> 5 s) in JSON::Load" : "exception other than runtime_error/out_of_range");
      start = at + 1;
    }
    cases += total;
  }
  const std::vector<std::string> specials = {std::string(100000, '['), std::string(100000, '{'), "[" + std::string(3000, '['), "\"\\u12", "\"\\u123", "\"\\", "-", "1e", "1e-", "[1,", "{\"a\":", "tru", "nul", "\"abc", "\v", " \v1", "[\v]", "\t\n\v\f\r 1", "[1 \v,2]"};
  std::string nested;
  for (int i = 0; i < 20000; ++i) nested += "{\"a\":[";
  std::vector<std::string> all = specials;
  all.push_back(nested);
  for (const auto &s : all) {
    ++cases;
    int r = in_child([&] { return tolerant(s); });
    if (r) { ++bad; std::printf("{\"input_hex\":\"%s\",\"input_len\":%zu,\"violated\":\"%s\"}\n", s.size() <= 64 ? hex(s).c_str() : (hex(s.substr(0, 16)) + "...").c_str(), s.size(), r == 2 ? "crash or sanitizer report in JSON::Load (deep nesting / truncated input)" : "exception other than runtime_error/out_of_range"); }
  }
  // --- accepted documents: Load succeeds and dump/Load is idempotent
  {
    const char *docs[] = {"[1,2]", "{\"a\":1}", "[-5,3]", "[1.5,2e3]", "[true,false,null]", "[[1],[2,[3]]]", "{\"a\":{\"b\":[1,2,{\"c\":\"d\"}]}}", "12", "-7",
                          " [ 1 , 2 ] ", "[\"x\",\"\\n\"]", "{\"k\":[]}", "[{}]", "[10,200,3000]", "[1e2]", "[0]"};
    for (const char *d : docs) {
      ++cases;
      const std::string doc = d;
      int r = in_child([&] {
        try {
          const std::string once = JSON::Load(doc).dump();
          const std::string twice = JSON::Load(once).dump();
          return once == twice ? 0 : 1;
        } catch (...) { return 1; }
      });
      if (r) { ++bad; std::printf("{\"input_hex\":\"%s\",\"document\":true,\"violated\":\"a valid JSON document is rejected, crashes, or dump/Load is not idempotent\"}\n", hex(doc).c_str()); }
    }
  }
  // --- integers: a plain digit string is an integer and keeps its exact value
  {
    const long long ints[] = {0, 7, -7, 2147483647LL, 2147483648LL, 999999999999999999LL, 1000000000000000000LL, 1234567890123456789LL, 9223372036854775807LL, -1234567890123456789LL};
    for (long long v : ints) {
      ++cases;
      const std::string doc = std::to_string(v);
      int r = in_child([&] {
        try { JSON j = JSON::Load(doc); return (j.JSONType() == JSON::Class::Integral && j.to_int() == v) ? 0 : 1; } catch (...) { return 1; }
      });
      if (r) { ++bad; std::printf("{\"input_hex\":\"%s\",\"integer\":true,\"violated\":\"an integer text does not come back as that integer\"}\n", hex(doc).c_str()); }
    }
  }
  // --- string round trip
  {
    int r = in_child([&] {
      for (int a = 0; a < 256; ++a) {
        std::string s1(1, char(a));
        if (roundtrip(s1)) { std::printf("{\"string_hex\":\"%s\",\"violated\":\"Load(JSON(s).dump()) != s\"}\n", hex(s1).c_str()); return 1; }
        for (int b = 0; b < 256; ++b) {
          std::string s2 = s1 + char(b);
          if (roundtrip(s2)) { std::printf("{\"string_hex\":\"%s\",\"violated\":\"Load(JSON(s).dump()) != s\"}\n", hex(s2).c_str()); return 1; }
        }
      }
      const char *longer[] = {"a\\nb", "\\\\", "\\u0041", "tab\there", "q\"uote\"", "back\\slash\\", "/slash/", "\b\f\n\r\t", "mixed \\\" \\\\ \\/ end"};
      for (const char *l : longer) if (roundtrip(l)) { std::printf("{\"string_hex\":\"%s\",\"violated\":\"Load(JSON(s).dump()) != s\"}\n", hex(l).c_str()); return 1; }
      return 0;
    });
    cases += 256 + 65536 + 9;
    if (r) { ++bad; if (r == 2) std::printf("{\"violated\":\"crash during the string round trip battery\"}\n"); }
  }
  std::fprintf(stderr, "probe_json: %ld cases, %ld failing batches\n", cases, bad);
  return bad ? 1 : 0;
}
