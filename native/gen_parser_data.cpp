// Real-code data for the parser kernels: m_alphabet (computed by build_alphabet() in
// chaiscript_parser.hpp) printed as a C initializer.  Compiled against /repo/include.
#include <chaiscript/chaiscript_basic.hpp>
#include <chaiscript/language/chaiscript_parser.hpp>
#include <cstdio>
int main() {
  using P = chaiscript::parser::ChaiScript_Parser<chaiscript::eval::Noop_Tracer, chaiscript::optimizer::Optimizer_Default>;
  namespace d = chaiscript::parser::detail;
  std::printf("static const bool m_alphabet[%d][%d] = {\n", int(d::max_alphabet), int(d::lengthof_alphabet));
  for (int a = 0; a < int(d::max_alphabet); ++a) {
    std::printf(" {");
    for (int c = 0; c < int(d::lengthof_alphabet); ++c) std::printf("%d%s", int(P::m_alphabet[std::size_t(a)][std::size_t(c)]), c + 1 < 256 ? "," : "");
    std::printf("}%s\n", a + 1 < int(d::max_alphabet) ? "," : "");
  }
  std::printf("};\n");
  return 0;
}
