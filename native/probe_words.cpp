// probe_words: native replay for kernel K5c (C16, word literals) against the REAL engine.
// Every word of the property must evaluate to its constant, and every near-miss spelling (case
// changes, prefixes, suffixes, the known FNV-1a collision "_yJTCO", ...) must be an ordinary,
// usable identifier: `var <name> = 5; <name>` evaluates to 5.
// usage: probe_words search [extra-name]  -> JSON lines of failing cases, exit 1 if any
#include <cmath>
#include <cstdio>
#include <string>
#include <vector>
#include <chaiscript/chaiscript.hpp>

static int bad = 0;
static void fail(const std::string &text, const std::string &why) { std::printf("{\"text\":\"%s\",\"violated\":\"%s\"}\n", text.c_str(), why.c_str()); ++bad; }

int main(int argc, char **argv) {
  chaiscript::ChaiScript chai;
  // the words
  try { if (chai.eval<bool>("true") != true) fail("true", "does not evaluate to true"); } catch (...) { fail("true", "not recognised"); }
  try { if (chai.eval<bool>("false") != false) fail("false", "does not evaluate to false"); } catch (...) { fail("false", "not recognised"); }
  try { double d = chai.eval<double>("Infinity"); if (!(std::isinf(d) && d > 0)) fail("Infinity", "is not +inf"); } catch (...) { fail("Infinity", "not recognised"); }
  try { double d = chai.eval<double>("NaN"); if (!std::isnan(d)) fail("NaN", "is not a NaN"); } catch (...) { fail("NaN", "not recognised"); }
  try { if (chai.eval<int>("\n\n__LINE__") != 3) fail("__LINE__", "is not the line number"); } catch (...) { fail("__LINE__", "not recognised"); }
  try { if (chai.eval<std::string>("__FILE__", chaiscript::exception_specification<>(), "f.chai") != "f.chai") fail("__FILE__", "is not the file name"); } catch (...) { fail("__FILE__", "not recognised"); }
  try { if (chai.eval<std::string>("def fn_x() { return __FUNC__; }; fn_x()") != "fn_x") fail("__FUNC__", "is not the function name"); } catch (...) { fail("__FUNC__", "not recognised"); }
  try { if (chai.eval<std::string>("__CLASS__") != "NOT_IN_CLASS") fail("__CLASS__", "is not the class marker"); } catch (...) { fail("__CLASS__", "not recognised"); }
  // everything else is an ordinary name
  std::vector<std::string> names = {"True", "TRUE", "tru", "truee", "true_", "_true", "False", "fals", "falsee", "infinity", "Infinit", "Infinity_", "nan", "NAN", "Nan", "NaN_", "NaNN",
                                    "__LINE_", "__line__", "__LINE__x", "___LINE__", "__FILE_", "__file__", "__FUNC_", "__func__", "__CLASS_", "__class__", "__", "___", "_a", "a_",
                                    "_yJTCO", "t", "f", "N", "I"};
  if (argc > 2) names.push_back(argv[2]);
  int k = 0;
  for (const auto &n : names) {
    ++k;
    try {
      int v = chai.eval<int>("var " + n + " = " + std::to_string(k) + "; " + n);
      if (v != k) fail(n, "an ordinary identifier does not hold its value");
    } catch (const std::exception &e) { fail(n, std::string("an ordinary identifier is not usable: ") + e.what()); }
    catch (...) { fail(n, "an ordinary identifier is not usable"); }
  }
  std::fprintf(stderr, "probe_words: %zu names + 8 words, %d failing\n", names.size(), bad);
  return bad ? 1 : 0;
}
